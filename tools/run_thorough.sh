#!/bin/bash
# run every thorough command once, end to end, and record wall time and verdict (maintenance aid; not a registered command)
cd "$(dirname "$0")/.."
mkdir -p out/thorough
for p in "$@"; do
  s=$(date +%s)
  timeout ${THOROUGH_CAP:-5400} ./vcheck $p --tier thorough > out/thorough/$p.log 2>&1
  rc=$?
  e=$(date +%s)
  echo "$p rc=$rc wall=$((e-s))s $(grep -E "^$p thorough:" out/thorough/$p.log | tail -1)" >> out/thorough/summary.txt
done
