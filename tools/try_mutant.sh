#!/bin/bash
# tools/try_mutant.sh <mutant dir with patch.diff, demo.py> <worktree to confirm in> <property id>...
# 1) confirm in the scratch worktree: demo passes clean, fails patched, the 30 baseline tests still pass
# 2) apply to /repo, run ./vcheck <prop> for each property, revert
mdir=$1; wt=$2; shift 2
cd $wt && git checkout -q -- . 2>/dev/null
PYTHONPATH=/tmp/mut/shim:$wt timeout 600 /venv/bin/python $mdir/demo.py >/dev/null 2>&1; clean=$?
git apply $mdir/patch.diff || { echo "PATCH DOES NOT APPLY in worktree"; exit 3; }
PYTHONPATH=/tmp/mut/shim:$wt timeout 600 /venv/bin/python $mdir/demo.py >/dev/null 2>&1; mut=$?
tests=$(/venv/bin/python -m pytest -q -p no:cacheprovider --timeout=900 --continue-on-collection-errors chython/files/daylight/test chython/utils/test/test_rdkit.py 2>&1 | tail -1)
git checkout -q -- .
echo "confirm: demo clean=$clean mutated=$mut tests: $tests"
cd /verif
git -C /repo apply $mdir/patch.diff || { echo "PATCH DOES NOT APPLY in /repo"; exit 3; }
for p in "$@"; do
  out=$(timeout 3000 ./vcheck $p 2>&1); rc=$?
  echo "check $p exit=$rc: $(echo "$out" | grep -c '^VIOLATION') violation line(s)"
  echo "$out" | grep -m3 "key=" | cut -c1-300
  echo "$out" | tail -1 | cut -c1-200
done
git -C /repo checkout -- .
git -C /repo status --short | head -3
