#!/bin/bash
# scratch worktree of /repo HEAD for a mutant author: /tmp/mut/<name>
set -e
name=$1
mkdir -p /tmp/mut/shim
[ -f /tmp/mut/shim/sitecustomize.py ] || cp "$(dirname "$0")/mut_shim.py" /tmp/mut/shim/sitecustomize.py
git -C /repo worktree add -f --detach /tmp/mut/$name HEAD >/dev/null 2>&1
echo /tmp/mut/$name
