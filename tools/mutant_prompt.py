#!/usr/bin/env python3
"""print the task text for a mutant-writing sub-agent: property text + worktree, nothing from /verif"""
import json, sys
pid, wt = sys.argv[1], sys.argv[2]
extra = sys.argv[3] if len(sys.argv) > 3 else ''
p = next(json.loads(l) for l in open('/verif/properties.jsonl') if json.loads(l)['id'] == pid)
print(f"""You are helping to evaluate a verification effort for the open-source cheminformatics library *chython* (pure Python, plus three Cython .pyx sources that are NOT compiled in this sandbox).

Your private scratch copy of the repository is the git worktree at {wt} (work ONLY there; never touch /repo or /verif, and do not read anything under /verif).

How to run code against your copy (the shim directory only repairs an unrelated third-party incompatibility):
    cd {wt} && PYTHONPATH=/tmp/mut/shim:{wt} /venv/bin/python your_script.py
The repository's test suite that must keep passing (30 tests pass, ~213 others fail for an unrelated dependency reason and do not count):
    cd {wt} && /venv/bin/python -m pytest -q -p no:cacheprovider --timeout=900 --continue-on-collection-errors chython/files/daylight/test chython/utils/test/test_rdkit.py 2>&1 | tail -3
(expected on the unchanged tree: exactly the same pass/fail counts as before your change: run it before and after.)
There is no network. rdkit is importable in /venv.

THE PROPERTY ({p['id']}: {p['title']}):
{p['statement']}
Quantified over: {p['quantifier']['text']}
Code it is anchored in: {', '.join(p['anchors']['files'])}
Mechanisms: {'; '.join(m['name'] + ' [' + m['where'] + ']' for m in p['anchors']['mechanism'])}

YOUR TASK: produce TWO different, independent, realistic source changes to chython (each in its own patch) that BREAK this property while the code still imports, and the 30 passing tests above still pass. Each change should look like a plausible maintenance slip or refactoring mistake (an off-by-one in a bit shift or table, a wrong boundary, a swapped argument, a dropped cache flush, a mishandled None, a condition inverted for one rare case, two sites that each look fine alone ...). Prefer changes that need something SPECIFIC to manifest - an unusual input, a boundary value, a particular order of operations, a rare combination of attributes - rather than changes that ordinary use would expose at once. Do not just delete functionality or raise exceptions everywhere.
{extra}
For each change i in (1, 2) create the directory {wt}/_mutant{'{i}'}/ containing:
  - patch.diff  : `git diff` of ONLY that change against the worktree HEAD (apply change 1, save its diff, `git checkout -- .`, then do change 2 the same way; at the end leave the worktree clean apart from the _mutant* directories)
  - demo.py     : a small standalone program (run as shown above) that exits 0 on the unchanged tree and exits non-zero (assert failure) with the change applied, demonstrating the property violation through the public API
  - meta.json   : {{"property": "{p['id']}", "summary": "...what was changed...", "needs": "...what specific input/sequence/condition is needed for it to manifest...", "files": [...]}}
Verify both yourself: demo passes without the change, fails with it; the 30 tests still pass with it. Report the two summaries at the end.""")
