#!/bin/bash
# apply every kept seeded change to /repo in turn, run the quick check of the property it targets (or the one recorded in
# meta.json "caught_by"), revert, and write seeded/SWEEP.md (maintenance aid; not a registered command)
cd "$(dirname "$0")/.."
out=seeded/SWEEP.md
# with arguments: only those seeded ids, appended to the existing table
if [ $# -eq 0 ]; then
  echo "| seeded change | check | exit | violations |" > $out
  echo "|---|---|---|---|" >> $out
  set -- $(ls -d seeded/*/ | xargs -n1 basename)
fi
git -C /repo diff --quiet || { echo "/repo has uncommitted changes"; exit 2; }
for id in "$@"; do
  d=seeded/$id/
  prop=$(python3 -c "import json,sys; d=json.load(open('$d/meta.json')); print(d.get('check_property') or d['property'])")
  if ! git -C /repo apply $PWD/$d/patch.diff 2>/dev/null; then echo "| $id | $prop | patch does not apply | |" >> $out; continue; fi
  ./vcheck $prop > out/sweep_$id.log 2>&1; rc=$?
  git -C /repo checkout -- .
  n=$(grep -c "^VIOLATION" out/sweep_$id.log)
  echo "| $id | $prop | $rc | $n |" >> $out
  echo "$id $prop rc=$rc violations=$n"
done
git -C /repo status --short | head -3
