#!/usr/bin/env python3
"""tools/keep_mutant.py <mutant dir> <seeded id> <property> "<what I ran / result>" : store under /verif/seeded/<id>/"""
import json, os, shutil, sys
src, sid, prop, ran = sys.argv[1:5]
dst = os.path.join('/verif/seeded', sid)
os.makedirs(dst, exist_ok=True)
shutil.copy(os.path.join(src, 'patch.diff'), dst)
shutil.copy(os.path.join(src, 'demo.py'), dst)
m = json.load(open(os.path.join(src, 'meta.json')))
meta = {'property': prop, 'summary': m.get('summary'), 'needs_to_manifest': m.get('needs'), 'files': m.get('files'),
        'author': 'independent sub-agent given only the property text and a scratch worktree',
        'confirmed': 'demo.py exits 0 on the clean worktree and non-zero with patch.diff applied; the 30 baseline tests still pass '
                     '(tools/try_mutant.sh)', 'checks_run': ran}
json.dump(meta, open(os.path.join(dst, 'meta.json'), 'w'), indent=1)
print('kept', dst)
