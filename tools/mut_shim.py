# environment shim: the CachedMethods release installed in /venv reads obj.__dict__ on slotted objects; this makes
# chython usable in this sandbox (no chython code involved)
try:
    import CachedMethods as _cm
    _S = _cm._SENTINEL
    def _get(self, obj, cls):
        if obj is None:
            return self
        d = getattr(obj, '__dict__', None)
        if d is not None:
            v = d.get(self.name, _S)
            if v is not _S:
                return v
        cc = cls.__class_cache__.get(cls)
        if cc is None:
            cc = cls.__class_cache__[cls] = {}
        v = cc.get(self.name, _S)
        if v is _S:
            v = cc[self.name] = _cm._freeze(self.func(obj))
        if d is not None:
            d[self.name] = v
        return v
    _cm.class_cached_property.__get__ = _get
except Exception:
    pass
