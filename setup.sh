#!/bin/bash
# build the overlay interpreter used by every check: /venv's packages + /repo on the path + z3-solver (and
# crosshair-tool for the second-opinion contracts) from the offline wheelhouse.  Idempotent, lock-protected.
set -e
cd "$(dirname "$0")"
exec 9>.lock
flock 9
if [ ! -x .venv/bin/python ] || ! .venv/bin/python -c "import z3" 2>/dev/null; then
  rm -rf .venv
  /venv/bin/python -m venv .venv
  SP=$(.venv/bin/python -c "import site;print(site.getsitepackages()[0])")
  printf "import site; site.addsitedir('/venv/lib/python3.12/site-packages')\n/repo\n" > "$SP/_verif_overlay.pth"
  PIP_NO_INDEX=1 .venv/bin/pip install -q --no-index --find-links /opt/veriftools/wheels z3-solver crosshair-tool >/dev/null
fi
.venv/bin/python -c "import z3, CachedMethods"
