#!/usr/bin/env python3
"""regenerate MANIFEST.json from the per-check metadata in this file (kept next to the checks so they stay in sync)"""
import json, os
ROOT = os.path.dirname(os.path.abspath(__file__))

CLAIMED = {}      # filled below: id -> (level text, level note, technique, design ref)
NOT_APPLICABLE = {}


def claim(pid, text, note, technique, ref):
    CLAIMED[pid] = (text, note, technique, ref)


def na(pid, reason):
    NOT_APPLICABLE[pid] = reason


exec(open(os.path.join(ROOT, 'claims.py')).read())

for _k in CLAIMED:
    NOT_APPLICABLE.pop(_k, None)
props = [json.loads(l)['id'] for l in open(os.path.join(ROOT, 'properties.jsonl'))]
checks = []
for pid in props:
    if pid in CLAIMED:
        text, note, technique, ref = CLAIMED[pid]
        checks.append({
            'property_id': pid,
            'quick_cmd': f'./vcheck {pid} --tier quick',
            'thorough_cmd': f'./vcheck {pid} --tier thorough',
            'evidence_file': f'evidence/{pid}.json',
            'replay_cmd_template': './vcheck replay {path}',
            'engine': 'minisym',
            'level_claimed': {'category': 'model_checking', 'text': text, 'design_ref': ref},
            'level_note': note,
            'technique': technique,
        })
assert set(CLAIMED) | set(NOT_APPLICABLE) == set(props), sorted(set(props) - set(CLAIMED) - set(NOT_APPLICABLE))
man = {
    'version': 1,
    'setup_cmd': './setup.sh',
    'hooks': {'guard': 'CHYTHON_VERIF', 'enable': 'no source hooks are needed: checks import /repo through a .pth and patch '
              'module attributes at run time', 'baseline_off_cmd': 'cd /repo && /venv/bin/python -m pytest -ra -q -p '
              'no:cacheprovider --timeout=900 --continue-on-collection-errors', 'source_commits': [], 'add_only': True},
    'engines': [
        {'name': 'minisym', 'path': 'vlib/minisym.py', 'serves_properties': sorted(CLAIMED),
         'kind_free_text': 'symbolic execution of the real Python code on z3-backed proxy values (re-execution DFS, '
                           'realisation of hashed/indexed values, native replay of every model)'},
        {'name': 'cysym', 'path': 'vlib/cysym.py', 'serves_properties': ['C09', 'C10', 'C18'],
         'kind_free_text': 'the .pyx sources normalised and AST-rewritten on every run and executed with C integer / '
                           'IEEE semantics on concrete values or z3 bit-vectors'},
    ],
    'checks': checks,
    'not_applicable': [{'property_id': k, 'reason': v} for k, v in sorted(NOT_APPLICABLE.items())],
    'notes': 'Every check is ./vcheck <id>; exit 0 held / 1 VIOLATION (replayed natively first) / 2 could not decide '
             '(harness error, solver unknown, budget). Known findings: known_findings.json.',
}
json.dump(man, open(os.path.join(ROOT, 'MANIFEST.json'), 'w'), indent=1)
print('claimed', sorted(CLAIMED), 'n/a', sorted(NOT_APPLICABLE))
