# per-property claims; executed by tools_manifest.py
claim('C12',
      'Solver-decided over all values of the symbolic variables within the bounds: both permutation tables in one validity '
      'query each; every neighbour permutation / hydrogen position through the real translate and add_* methods; all real '
      '2-D coordinates and wedge positions through add_wedge, calculate_cis_trans_from_2d and the SMILES writer against an '
      'independent signed-volume / side-of-axis reading of the written string; every random-order spelling of stereo seeds.',
      'Bounded: listed seed skeletons; floats modelled as reals; seeds are built with chython.smiles(); z3 and the proxy '
      'engine are trusted, every model is replayed natively.',
      'symbolic execution of the real code with z3 (minisym), validity queries per path', 'DESIGN.md §4 C12')
_todo = ('check not built yet in this round; see DESIGN.md §8 build order')
for _p in ['C01', 'C02', 'C03', 'C04', 'C05', 'C06', 'C07', 'C09', 'C10', 'C11', 'C13', 'C14', 'C15', 'C16', 'C17', 'C20']:
    na(_p, _todo)
na('C19', 'PYTHONHASHSEED / process effects live in CPython C code and start-up, not reachable by symbolic execution of '
          'chython; modelling set order as arbitrary would over-approximate and raise false alarms (DESIGN.md C19)')
claim('C18',
      'Finite domain decided by the solver: table consistency (abundance/mass key sets, codec reference tables, 5-bit pack '
      'offset) as single validity queries over symbolic (element number, isotope); symbol/number lookups, reference '
      'isotope, atomic mass and valence-rule compilation with the element number realised (one path per value, '
      'exhaustion certified by unsat); the real matcher bit-layout builder executed on symbolic isotope/charge/H/radical '
      'as bit-vectors: every word < 2^64 and the attribute word injective.',
      'Tables are read from the classes / .pyx text of the current tree; numerical values of masses are not judged; 19 '
      'elements whose MDL reference isotope is not a tabulated isotope are listed in known_findings.json.',
      'z3 validity queries over tables extracted from source + symbolic execution of the real code (minisym)',
      'DESIGN.md §4 C18')
claim('C08',
      'Solver-decided: the four real query-atom __eq__ methods and QueryBond.__eq__ against the documented predicate with '
      'every query constraint and every atom attribute a z3 variable (one validity query per path); calc_labels on star '
      'environments with every bond order symbolic; SMARTS atom/bond texts assembled from solver-enumerated primitive '
      'choices parse to the documented constraints, texts outside the subset are rejected; stereo-marked queries against '
      'every random-order spelling of the seed and of its stereoisomers.',
      'Bounded: constraint lists up to length 2 (quick) / 3 (thorough), ring sizes over {3,5,6}, listed element classes, '
      'SMARTS atoms with <= 2 primitive groups; the metal/non-metal partition and the primitive semantics are my reading of '
      'the documentation.',
      'symbolic execution of the real comparison / labelling / parsing code with z3 (minisym)', 'DESIGN.md §4 C08')
