# per-property claims; executed by tools_manifest.py
claim('C12',
      'Solver-decided over all values of the symbolic variables within the bounds: both permutation tables in one validity '
      'query each; every neighbour permutation / hydrogen position through the real translate and add_* methods; all real '
      '2-D coordinates and wedge positions through add_wedge, calculate_cis_trans_from_2d and the SMILES writer against an '
      'independent signed-volume / side-of-axis reading of the written string; every random-order spelling of stereo seeds.',
      'Bounded: listed seed skeletons; floats modelled as reals; seeds are built with chython.smiles(); z3 and the proxy '
      'engine are trusted, every model is replayed natively.',
      'symbolic execution of the real code with z3 (minisym), validity queries per path', 'DESIGN.md §4 C12')
_todo = ('check not built yet in this round; see DESIGN.md §8 build order')
for _p in [ 'C05', 'C06', 'C11', 'C14', 'C15', 'C16', 'C17', 'C20']:
    na(_p, _todo)
na('C19', 'PYTHONHASHSEED / process effects live in CPython C code and start-up, not reachable by symbolic execution of '
          'chython; modelling set order as arbitrary would over-approximate and raise false alarms (DESIGN.md C19)')
claim('C18',
      'Finite domain decided by the solver: table consistency (abundance/mass key sets, codec reference tables, 5-bit pack '
      'offset) as single validity queries over symbolic (element number, isotope); symbol/number lookups, reference '
      'isotope, atomic mass and valence-rule compilation with the element number realised (one path per value, '
      'exhaustion certified by unsat); the real matcher bit-layout builder executed on symbolic isotope/charge/H/radical '
      'as bit-vectors: every word < 2^64 and the attribute word injective.',
      'Tables are read from the classes / .pyx text of the current tree; numerical values of masses are not judged; 19 '
      'elements whose MDL reference isotope is not a tabulated isotope are listed in known_findings.json.',
      'z3 validity queries over tables extracted from source + symbolic execution of the real code (minisym)',
      'DESIGN.md §4 C18')
claim('C08',
      'Solver-decided: the four real query-atom __eq__ methods and QueryBond.__eq__ against the documented predicate with '
      'every query constraint and every atom attribute a z3 variable (one validity query per path); calc_labels on star '
      'environments with every bond order symbolic; SMARTS atom/bond texts assembled from solver-enumerated primitive '
      'choices parse to the documented constraints, texts outside the subset are rejected; stereo-marked queries against '
      'every random-order spelling of the seed and of its stereoisomers; query atoms built by from_atom (source atom, requested '
      'properties and image atom solver-chosen) match exactly the atoms sharing the requested properties.',
      'Bounded: constraint lists up to length 2 (quick) / 3 (thorough), ring sizes over {3,5,6}, listed element classes, '
      'SMARTS atoms with <= 2 primitive groups; the metal/non-metal partition and the primitive semantics are my reading of '
      'the documentation.',
      'symbolic execution of the real comparison / labelling / parsing code with z3 (minisym)', 'DESIGN.md §4 C08')
claim('C10',
      'The real pack / unpack / double_to_float16 / double_from_bytes sources are interpreted from the current .pyx text with '
      'C semantics on z3 bit-vectors and Float64: for every 12-bit atom number, isotope field, stereo/H/charge/radical value, '
      'bond order and cis/trans entry of the listed shapes pack() equals my encoder of the published layout byte for byte and '
      'unpack(pack(m)) restores every field in order; the half-float encoder is decided for every finite double and the '
      'decoder for every 16-bit pattern; version-0 bond-order block; limits, pack_len and reaction framing through the real '
      'Python wrappers; 640 (quick) / 4200 (thorough) published packs decode to their CSV structures and re-pack to the '
      'published bytes.',
      'Bounded: shapes <= 3 atoms (quick) / 5 atoms (thorough); None-ness of optional fields exhaustive on one atom per shape; '
      'the structural harness stubs the half-float codec (decided separately over all doubles); trusted: vlib/cysym.py as '
      'Cython semantics (validated against 4200 published packs and native replay of every model), z3, zlib.',
      'symbolic execution of the .pyx sources (cysym) + real Python wrappers (minisym) with z3; QF_BV / QF_FP queries',
      'DESIGN.md §4 C10')
claim('C09',
      'The compiled matcher is executed from the current _isomorphism.pyx text (cysym: packed structs read from the byte '
      'buffers, C unsigned arithmetic) on buffers produced by the real mask builders, through the public '
      'query.get_mapping(mol) with both settings of _cython: mapping sets are equal for one query atom (all four kinds) '
      'against one atom with every attribute symbolic as bit-vectors, for every element pair (118 x 118) and any-metal x 118, '
      'for symbolic bond order lists / ring marks, and for whole searches on small shapes with every atom label and bond '
      'order symbolic, where they also equal a brute-force enumeration; Struct formats equal the packed struct layouts.',
      'Bounded: listed element classes, constraint lists of length 0 or 2 (quick), ring sizes over {3,6,65,66}, search shapes '
      '<= 3/4 atoms (quick) or 4/5 (thorough); documented exclusions (Lv/Ts/Og merge, ring sizes > 65, H > 4); one recorded '
      'finding (unknown hydrogen count encoded as zero); trusted: vlib/cysym.py as Cython semantics, z3.',
      'symbolic execution of the .pyx source (cysym) and of the real Python mask builders / reference matcher (minisym) '
      'with z3 bit-vector queries', 'DESIGN.md §4 C09')
claim('C01',
      'Every spelling chython\'s random-order writer can produce is explored by making random() a solver variable (one path per '
      'distinct comparison outcome, exhaustion certified by unsat); each spelling is re-read and must give the same canonical '
      'string, equal hash, equality, and canonical ranks transported along the written order; every renumbering and '
      'atom/bond insertion order (permutation realised by the solver) of small seeds gives the same string.',
      'Bounded: seed corpus (34 quick / 56 thorough molecules), DFS orders of the writer rather than all n! numberings for the '
      'larger seeds; aromatic seeds normalised by kekule+thiele; documented heuristic gaps excluded; hash collisions outside.',
      'symbolic execution of the real writer/reader/canonicaliser with z3-decided branch feasibility (minisym)',
      'DESIGN.md §4 C01')
claim('C02',
      'Same device as C01 with the style flags a, A, m, h as solver booleans: every write order x flag combination of the seeds '
      'is written by the real writer, re-read by the real reader and compared atom by atom in the written order (element, '
      'isotope, charge, radical, hydrogens, bond orders, tetrahedral / allene / cis-trans configuration translated to one common '
      'neighbour order); an independent reader sees the same atoms in the same order; labels are injective on seeds with free '
      'charge/isotope/radical/stereo slots; atom-map boundary values.',
      'Bounded: seed corpus; skeleton-level injectivity not claimed; aromatic re-reads are normalised by kekule+thiele before '
      'comparing hydrogen counts (documented library behaviour).',
      'symbolic execution of the real writer and reader with z3 (minisym)', 'DESIGN.md §4 C02')
claim('C13',
      'One inductive step from a fully cached state: after every derived value was read, one or two public-API edits with '
      'solver-enumerated arguments (including invalid atom numbers, which must be rejected and leave the molecule intact) are '
      'applied and every derived value is compared with a molecule rebuilt from scratch through the public API; raising '
      'transactions restore exactly the prior state and leave the object usable; copies, substructures, unions and split parts '
      'are unaffected by later edits of their source and are themselves editable.',
      'Bounded: 9 Kekule seeds <= 7 atoms (quick) / 16 (thorough), edit alphabet of 9 operations, histories of length <= 2; '
      'arguments are dictionary keys, so the solver enumerates finite domains rather than generalising; the rebuilt molecule '
      'uses the library itself for hydrogens and canonical strings (independent valence model: C04).',
      'symbolic execution of the real mutators with solver-enumerated arguments (minisym), differential against a rebuilt '
      'molecule', 'DESIGN.md §4 C13')
claim('C04',
      'Solver-certified exhaustive exploration of a finite domain: star environments around 12 (quick) / 20 (thorough) centre '
      'elements with charge, radical flag and a multiset of up to 3 (4) neighbours over orders {1,2,3} x neighbour classes as '
      'solver variables (realised by the code under test, exhaustion certified by unsat): real calc_implicit equals a '
      're-derivation from the raw rule tuples, check_implicit accepts exactly the allowed counts, check_valence reports exactly '
      'the atoms without a state, totals are sums; aromatic special cases; OpenSMILES organic-subset valence model on neutral '
      'closed-shell atoms.',
      'Not a generalising proof: every variable is a dictionary key in calc_implicit. Bounds as stated; the table oracle '
      're-implements the first-matching-rule semantics from the docstring; RDKit comparison dropped (legitimate toolkit '
      'differences).',
      'symbolic execution with solver-enumerated finite domains (minisym) against two independent oracles', 'DESIGN.md §4 C04')
claim('C07',
      'The stack matcher and its query compiler run on graphs whose atom and bond labels are unconstrained solver integers '
      '(the code only compares them with ==, so one path covers every label assignment with the same equality pattern) and '
      'must return exactly the embeddings of a brute-force enumerator evaluated on the same symbolic labels; the public '
      'MoleculeContainer.get_mapping with multi-component patterns and targets, symbolic scope subsets and both settings of '
      'the automorphism filter, and <=, <, is_substructure, is_equal agree with that set; lazy_product equals the cartesian '
      'product for symbolic iterator lengths; the automorphism generator returns exactly the (component-preserving) '
      'automorphisms; a stereo label on a query pattern restricts the match to images of the same configuration for every '
      'spelling of the target (molecule patterns compare constitution only); mappings are collected before they are read, so each '
      'must be an object of its own.',
      'Bounded: pattern <= 3 atoms / target <= 4-5 atoms (quick), 4 / 5 (thorough); shapes and atom numbers are concrete; '
      'exchanges of whole identical components by get_automorphism_mapping are not claimed.',
      'symbolic execution of the real matcher with z3-decided label equalities (minisym), brute-force oracle on the same '
      'symbolic labels', 'DESIGN.md §4 C07')
claim('C03',
      'The tokenizer is re-compiled from its current source with character tests lifted to symbolic characters and run, '
      'with the real parser, on every string of length <= 2 and length 3 with three first characters (quick; every string of length <= 3 thorough) and on 19 templates with symbolic '
      'characters at variable positions, each character ranging over all of Unicode (ASCII individually, non-ASCII by the '
      'classes the code can observe); the parse record is compared with an independent OpenSMILES-subset reader on the same '
      'symbolic string (atoms, isotopes, charges, hydrogens, maps, chirality marks, bonds and implicit orders, neighbour '
      'order, ring-closure pairing, direction marks), acceptance is judged at the public entry point, and any exception '
      'other than ValueError is a violation; bracket atoms from solver-enumerated field values (every charge spelling); '
      'reaction arrows, CXSMILES radical lists with symbolic role counts and indices, fragment grouping; where both ends of a double bond carry a direction mark (chain bond or either digit of a ring closure) the molecule built by the public reader has the configuration the independent reader derives.',
      'Bounded by string length / templates; a leading parenthesised group is treated as part of the language because the '
      'parser admits it on purpose; regex matching runs on realised bracket contents; the reference reader is mine.',
      'symbolic execution of the source-lifted tokenizer and the real parser with z3 (minisym), differential against an '
      'independent reader', 'DESIGN.md §4 C03')
claim('C06',
      'Ring perception is run on every labelled connected graph with each possible bond a solver boolean (4 and 5 atoms quick; 6 atoms with <= 5 rings and 7 atoms with <= 3 rings thorough) and on 22 (quick) / 35 (thorough) ring-system skeletons with every bond symbolically ordinary or '
      'coordinate (the solver forks the 2^bonds cases) and under every renumbering of the smaller skeletons (permutation '
      'realised by the solver): ring count = cyclomatic number without coordinate bonds, every ring a simple cycle of existing '
      'ordinary bonds, GF(2)-independent, total size and size multiset of a minimum cycle basis (computed by my own greedy '
      'basis over all simple cycles), atom/bond ring marks, ring sizes and connected components agree; size multiset '
      'independent of numbering.',
      'The skeleton list is curated and avoids the two recorded heuristic gaps; symbolic are the presence of every bond '
      '(labelled-graph harness), the coordinate flag of every bond and the numbering; 7 atoms with 4-5 rings and 8 atoms are not run.',
      'symbolic execution with solver-forked bond flags and solver-enumerated permutations (minisym), graph-theoretic oracle',
      'DESIGN.md §4 C06')
claim('C17',
      'Linear fragments on small skeletons with every atom identifier a solver variable (realised by the code, exhaustion '
      'certified) equal my own simple-path enumeration keyed by the larger reading direction, with multiplicities and the cap; '
      'the folding arithmetic of linear_bit_set / morgan_bit_set is decided for every signed 64-bit hash as a bit-vector: each '
      'index < length, one per active bit, equal to the documented bit groups; Morgan identifiers equal my own iterated '
      'neighbourhood hashing; every hash set / fingerprint / fragment-SMILES dictionary is equal for every random-order spelling of the seeds.',
      'Bounded: skeletons <= 5-6 atoms with 2-3 identifier values, length 2^1..2^12 (quick), seeds; CPython hash collisions '
      'outside; `set` in the fingerprint modules is replaced by a recorder in the folding harness.',
      'symbolic execution of the real fingerprint code (minisym): bit-vector validity queries for the folding, '
      'solver-enumerated labels for the fragments', 'DESIGN.md §4 C17')
claim('C15',
      'compose on mapped shape pairs with every charge and radical flag of both sides symbolic and every bond order '
      'solver-enumerated: the reaction centre is exactly my "differs" set and dynamic atoms/bonds carry both sides\' values; '
      'identical sides have no centre; the dynamic symbol tables are total and injective; the reaction string is the same for '
      'every order of molecules inside a role and for symbolic role counts (incl. empty roles, salts, radicals) and reads back '
      'to the same roles; the CGR string and centre are invariant under every consistent renumbering of both sides.',
      'Bounded: 5 shape pairs <= 5 atoms, charges -1..1, orders {1,2,3}; role counts 0..2 (quick) / 0..3; 3 (6) reactions for '
      'the renumbering clause (permutations realised by the solver).',
      'symbolic execution of the real compose / signature code with z3 (minisym)', 'DESIGN.md §4 C15')
claim('C05',
      'Every random-order spelling (random() symbolic) of aromatic / aromatisable seeds, written from the aromatic and from the '
      'Kekule form, is read back and converted: the Kekule result has only orders 1-3, known hydrogens and no valence error, '
      'the same atoms / charges / radicals / hydrogens / connectivity / formula as the seed under the written correspondence; '
      'thiele() gives the same aromatic string for every spelling; both conversions are idempotent; every Kekule form enumerated from the normalised aromatic form is valid, keeps atoms and hydrogens, '
      'aromatises to the same form, and there are as many as perfect matchings of the aromatic bonds; the hydrogens of the Kekule '
      'form are those the written seed gives each atom (independent reader); the seed as read and its Kekule form aromatise alike. Ring templates with every position solver-enumerated are kekulised '
      'exactly when a perfect matching of the double-bond acceptors exists (nitrogen may become pyrrole-like).',
      'Bounded: 19 seeds (44 thorough), 5- and 6-membered templates over a 5- resp. 4-letter alphabet; unsaturated four-rings '
      'and > 3 fused rings outside; relational oracle plus my matching model.',
      'symbolic execution of the real writer / reader / kekule / thiele with z3-decided write orders (minisym)',
      'DESIGN.md §4 C05')
claim('C14',
      'Every documented functional-group spelling harvested (by ast, on every run) from the repository\'s own test_groups.py is '
      'standardised, under every random-order spelling of the input (random() symbolic), to its documented canonical '
      'spelling, with heavy atoms conserved, net charge conserved on valence-valid input, and idempotence; explicify / '
      'implicify are exact and mutually inverse; canonicalize / standardize / neutralize / fix_resonance / tautomer '
      'enumeration on seeds conserve composition, stay valence-valid, are idempotent and independent of the input order '
      '(tautomer fixing disabled for that clause), each with and without derived values read first; neutralize() with the default '
      'keep_charge conserves charge and hydrogens; standardize_charges brings both resonance spellings of an azolium cation to one '
      'form; explicify / implicify under every numbering with gaps (distinct solver integers).',
      'Bounded: harvested pairs with <= 6 heavy-atom symbols in quick (all in thorough), 26 / 40 seeds; rule interactions '
      'beyond these inputs outside; three recorded findings (azoxy-type canonical forms are not fixed points of standardize).',
      'symbolic execution of the real writer / reader / normalisers with z3-decided input orders (minisym)',
      'DESIGN.md §4 C14')
claim('C20',
      'RDKit is called concretely; what the solver explores is every atom / neighbour order the random-order writer can hand '
      'to the bridge (random() symbolic): for every spelling of the seeds, to_rdkit gives the molecule RDKit parses from the same '
      'text (RDKit canonical SMILES, atom maps stripped; atom numbers travel as maps), from_rdkit(to_rdkit(m)) is m with '
      'numbers, elements, isotopes, charges, radicals preserved, and from_rdkit of the RDKit-parsed text is the chython-parsed '
      'text; aromatic and Kekule form.',
      'Lowest level of the claimed set: order nondeterminism only; seeds restricted to what both toolkits accept (carbon '
      'stereocentres, stereo double bonds, hydrogens written as atoms on stereocentres, coordinate bonds to a metal with per-atom hydrogen counts and dative direction checked); coordinates and allenes not covered.',
      'symbolic execution of the real writer/reader/bridge with z3-decided spelling orders (minisym); RDKit as concrete oracle',
      'DESIGN.md §4 C20')
claim('C11',
      'Clauses with symbolic content only: records of <= 3 atoms with charge -4..4, isotope, radical flag, atom number (1, 999, '
      '1000) and bond order (1, 2, 3, 4, 8) as solver variables go through all five real writers (V2000 / V3000 molecule and '
      'reaction files, MRV) and their readers and come back field by field in order, with title and metadata; the fixed-column '
      'writers refuse only what their columns cannot hold; reactions with symbolic role counts keep roles, order and mapping '
      'numbers; stereo seeds (incl. meso triols and an allene) with 2-D coordinates keep their configuration through every format with the '
      'default and the cis/trans-calculating reader; the decorated atom is first, middle or last; a wedged molecule sits in a '
      'solver-chosen reaction role; the bond block may be listed in any order (solver permutation); files of 1..3 records: '
      'access by index, seek and slices equal sequential reading, a record with a broken counts line at a solver-chosen position '
      'is skipped and the others are read.',
      'The variables are realised when the writer formats them: a solver-enumerated finite domain. Metadata escaping over all printable text, other kinds of damage and foreign files '
      'beyond a permuted bond block are not claimed; the wedge <-> sign relation over all real coordinates is decided under C12.',
      'symbolic execution of the real writers and readers with solver-enumerated field values (minisym)', 'DESIGN.md §4 C11')
claim('C16',
      'The template / input / result vectors of the repository\'s own (non-running) test_transformer.py, harvested by ast on '
      'every run, and 20 synthetic templates (deletion with detached fragments also through bridged rings, masked atoms, new atoms, charge '
      'change, bond order change, identity, untouched ring / chain stereo, E/Z requested by the replacement) are applied to every random-order spelling of the input (random() symbolic): one product per '
      'distinct match, the documented products for every input order, the same product set as for the original numbering, '
      'unique atom numbers, valence-valid products, unnamed atoms keep number / attributes / neighbours, named atoms get the '
      'requested charge and radical state, deleted atoms go with their detached fragments (my reachability oracle) unless masked, '
      'the input is not modified; untouched stereocentres keep their configuration; two two-reactant Reactor templates on three '
      'molecules in every order with colliding or disjoint numberings give the product set of the hand-disjoint reference.',
      'Claimed narrowly: Transformer and Reactor with the listed templates; the built-in reaction / deprotection collections and other Reactor '
      'modes are outside; one recorded finding (stereo override depends on input atom order).',
      'symbolic execution of the real matcher / patcher with z3-decided input orders (minisym)', 'DESIGN.md §4 C16')
