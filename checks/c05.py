"""C05 Kekule and aromatic forms describe the same molecule; conversions are stable."""
import itertools

from vlib.spell import respell

PROPERTY = 'C05'

META = {
    'functions_encoded': [
        'chython/algorithms/aromatics/kekule.py: Kekule.kekule, enumerate_kekule, __fix_rings, __prepare_rings, __kekule_full, '
        '_kekule_component', 'chython/algorithms/aromatics/thiele.py: Thiele.thiele',
        'chython/containers/molecule.py: calc_implicit, calc_labels, check_valence',
    ],
    'bounds': {
        'quick': 'every random-order spelling (random() symbolic) of 20 aromatic / aromatisable seeds in aromatic and in Kekule '
                 'form; 5- and 6-membered ring templates with every position solver-enumerated over {c, n, [nH], o, s} (5-ring) '
                 'and {c, n, o, [n+]} (6-ring) against a perfect-matching oracle',
        'thorough': '30 seeds incl. fused and charged systems; 7-ring template',
    },
    'outside_claim': ['unsaturated four-membered rings (recorded gap)', 'more than three fused rings',
                      'the repair rules of _rules.py beyond what the seeds reach'],
    'stubs': ['chython.algorithms.smiles.random -> fresh z3 Real; min -> n-way argmin'],
    'assumptions': [],
}

# seeds written in an aromaticity model chython's thiele() does not share (exocyclic C=O rings, selenophene): for these the
# clause "the freshly read aromatic spelling and its Kekule form aromatise alike" is not asked
FOREIGN = {'O=c1cc[nH]cc1', 'Cn1cnc2c1c(=O)n(C)c(=O)n2C', 'c1cc[se]c1'}

SEEDS_Q = ['c1ccccc1', 'c1ccncc1', 'c1cc[nH]c1', 'c1ccoc1', 'c1ccsc1', 'Cc1ccccc1', 'c1ccc2ccccc2c1', 'c1ccc2[nH]ccc2c1',
           'O=c1cc[nH]cc1', 'c1cc[n+](C)cc1', '[O-][n+]1ccccc1', 'c1cnccn1', 'c1ccc(cc1)-c1ccccc1', 'c1cn[nH]c1', 'Oc1ccccc1',
           'c1coc(C)n1', 'c1cnc2nccnc2n1', 'c1ccc2c(c1)sc1nccn12', 'c1nnn[nH]1',
           'CN1C=CC2=NC=CC2=C1']      # N-alkyl quinoid ring fused to an azole: no mobile hydrogen for the tautomer fix
SEEDS_T = SEEDS_Q + ['c1ccc2c(c1)ccc1ccccc12', 'c1ccc2cc3ccccc3cc2c1', 'Cn1cnc2c1c(=O)n(C)c(=O)n2C', 'c1ccc2ncccc2c1',
                     '[cH-]1cccc1', 'c1cc[o+]cc1', 'c1ccc2occc2c1', 'c1ccc2sccc2c1', 'c1cc2cccc3ccc4cccc1c4c32', 'c1ccpcc1',
                     'c1cc[se]c1', 'b1ccccc1' if False else 'c1ccbcc1', 'O=C1C=CC(=O)C=C1', 'C1=CC=CC=C1',
                     'c1cn2ccnc2s1', 'c1ccc2c(c1)[nH]c1cccn12', 'c1ccc2c(c1)oc1nccn12', 'c1cnc2nccnc2c1',
                     'Cc1cnc2nc(N)nc(N)c2n1', 'c1ccc2nc3nccnc3nc2c1', 'c1ccc2c(c1)[nH]c1ccccc12', 'n1cnc2[nH]cnc2c1',
                     'c1nc[nH]n1', 'c1cscn1', 'c1ccn2cccc2c1']


def snapshot(m):
    return {
        'atoms': {n: (a.atomic_number, a.isotope, a.charge, a.is_radical, a.implicit_hydrogens) for n, a in m.atoms()},
        'bonds': sorted((min(x, y), max(x, y)) for x, y, _ in m.bonds()),
        'formula': {k: v for k, v in m.brutto.items() if v} if all(a.implicit_hydrogens is not None for _, a in m.atoms()) else None,
    }


VALENCES = {'B': (3,), 'C': (4,), 'N': (3, 5), 'O': (2,), 'P': (3, 5), 'S': (2, 4, 6), 'Se': (2, 4, 6), 'F': (1,), 'Cl': (1,),
            'Br': (1,), 'I': (1,)}


def written_hydrogens(smi):
    """hydrogen count of every atom as the SMILES rules give it, read with the independent reader: a bracket atom has what
    is written; an aromatic atom of the organic subset spends one valence on the ring pi system; others fill up the
    lowest normal valence. Keys are chython's atom numbers (order of writing, from 1)."""
    from vlib import refsmiles
    ref = refsmiles.read(smi)
    adj = ref.adjacency()
    out = {}
    for i, a in enumerate(ref.atoms):
        if a.bracket:
            out[i + 1] = a.hcount or 0
            continue
        used = sum(1 if o == 4 else o for o in adj[i].values()) + (1 if a.aromatic else 0)
        sym = a.symbol.capitalize() if a.aromatic else a.symbol
        # an aromatic atom never fills up to a higher valence: o, s and three-connected n give their lone pair to the ring
        out[i + 1] = max(0, VALENCES[sym][0] - used) if a.aromatic else next((v - used for v in VALENCES[sym] if v >= used), 0)
    return out


def count_kekule_structures(m, kek):
    """number of ways to place the ring double bonds: perfect matchings of the aromatic-bond graph over the atoms that
    carry a ring double bond in one Kekule form (with hydrogens known, that atom set is the same in every form)"""
    arom = {frozenset((x, y)) for x, y, b in m.bonds() if b.order == 4}
    need = set()
    for x, y, b in kek.bonds():
        if b.order == 2 and frozenset((x, y)) in arom:
            need.update((x, y))
    edges = [tuple(e) for e in arom if e <= need]

    def rec(free):
        if not free:
            return 1
        a = min(free)
        return sum(rec(free - {x, y}) for x, y in edges if a in (x, y) and x in free and y in free)
    return rec(frozenset(need))


def h_spellings(V, smi, form='aromatic'):
    import chython
    src = chython.smiles(smi)
    fresh = src.copy()
    src.kekule()
    kek_ref = src.copy()
    V.prove({n: a.implicit_hydrogens for n, a in kek_ref.atoms()} == written_hydrogens(smi),
            'Kekule form of the seed has the hydrogens the written SMILES gives each atom (independent reader)',
            {'seed': smi, 'got': {n: a.implicit_hydrogens for n, a in kek_ref.atoms()}, 'want': written_hydrogens(smi)})
    src.thiele()
    aro = str(src)
    if smi not in FOREIGN and any(b.order == 4 for *_, b in fresh.bonds()):
        fresh.thiele()
        V.prove(str(fresh) == aro, 'the seed as read (aromatic spelling) and its Kekule form aromatise to the same form',
                {'seed': smi, 'got': str(fresh), 'want': aro})
    start = src.copy() if form == 'aromatic' else kek_ref.copy()
    text, order = respell(V, start)
    m = chython.smiles(text)
    info = {'text': text, 'seed': smi}
    if form == 'aromatic' and smi not in FOREIGN:
        d = m.copy()
        d.thiele()
        V.prove(str(d) == aro, 'an aromatic spelling aromatises to the same form read directly or through its Kekule form',
                dict(info, got=str(d), want=aro))
    had = m.kekule()
    V.prove(all(b.order in (1, 2, 3) for *_, b in m.bonds()), 'Kekule form has only single, double and triple bonds', info)
    V.prove(all(a.implicit_hydrogens is not None for _, a in m.atoms()) and m.check_valence() == [],
            'Kekule form has no valence error and every hydrogen count is known', info)
    k1 = snapshot(m)
    kek_of_m = m.copy()
    korders = {(min(x, y), max(x, y)): b.order for x, y, b in m.bonds()}
    m.kekule()
    V.prove({(min(x, y), max(x, y)): b.order for x, y, b in m.bonds()} == korders and snapshot(m) == k1,
            'repeating kekule() changes nothing', info)
    # same molecule as the seed under the written correspondence
    corr = {n: i + 1 for i, n in enumerate(order)}
    ref = snapshot(kek_ref)
    V.prove({corr[n]: v for n, v in ref['atoms'].items()} == k1['atoms'], 'elements, isotopes, charges, radicals and hydrogen '
            'counts are those of the seed', dict(info, got=k1['atoms']))
    V.prove(sorted((min(corr[a], corr[b]), max(corr[a], corr[b])) for a, b in ref['bonds']) == k1['bonds'], 'connectivity kept', info)
    V.prove(ref['formula'] == k1['formula'], 'formula kept', info)
    m.thiele()
    forms = list(m.enumerate_kekule())      # enumerated from the aromatic form, hydrogens known
    V.prove(len(forms) == count_kekule_structures(m, kek_of_m), 'as many Kekule forms are enumerated as there are ways to '
            'pair the double-bond atoms along aromatic bonds', dict(info, got=len(forms)))
    V.prove(len({tuple(sorted((min(x, y), max(x, y), b.order) for x, y, b in f.bonds())) for f in forms}) == len(forms),
            'enumerated Kekule forms are pairwise different', info)
    V.prove(str(m) == aro, 'aromatic form is the same for every spelling', dict(info, got=str(m), want=aro))
    t1 = snapshot(m)
    s1 = str(m)
    m.thiele()
    V.prove(str(m) == s1 and snapshot(m) == t1, 'repeating thiele() changes nothing', info)
    V.prove(t1['atoms'] == k1['atoms'] and t1['bonds'] == k1['bonds'], 'thiele() keeps atoms, hydrogens and connectivity', info)
    V.prove(len(forms) >= 1, 'at least one Kekule form is enumerated', info)
    for f in forms:
        V.prove(all(b.order in (1, 2, 3) for *_, b in f.bonds()) and f.check_valence() == [], 'every enumerated form is a valid '
                'Kekule structure', info)
        V.prove(snapshot(f) == k1, 'every enumerated form has the atoms, hydrogens and connectivity of the molecule', info)
        f.thiele()
        V.prove(str(f) == aro, 'every enumerated Kekule form aromatises to the same aromatic form', dict(info, got=str(f)))
    V.observe('text', text)


def has_perfect_matching(n, acceptors, cyclic=True):
    """can the acceptor atoms of a ring be paired up along ring bonds?"""
    acc = [i for i in range(n) if acceptors[i]]
    edges = [(i, (i + 1) % n) for i in range(n if cyclic else n - 1) if acceptors[i] and acceptors[(i + 1) % n]]

    def rec(free):
        if not free:
            return True
        a = min(free)
        for x, y in edges:
            if a in (x, y):
                b = y if x == a else x
                if b in free:
                    if rec(free - {a, b}):
                        return True
        return False
    return rec(frozenset(acc))


TOKENS5 = ['c', 'n', '[nH]', 'o', 's']
TOKENS6 = ['c', 'n', 'o', '[n+]']
ACCEPTOR = {'c': True, 'n': True, '[nH]': False, 'o': False, 's': False, '[n+]': True}


def h_template(V, size, falsify=False):
    """ring template: kekule() succeeds exactly when the double-bond acceptors can be perfectly matched"""
    import chython
    from chython.exceptions import InvalidAromaticRing
    toks = TOKENS5 if size == 5 else TOKENS6
    ring = [V.choice(f't{i}', toks) for i in range(size)]
    # [n+] needs a substituent to be a valid ring atom: write it as [n+](C); o in a six-ring is pyrylium-like only as [o+]
    parts = []
    for i, t in enumerate(ring):
        p = t
        if t == '[n+]':
            p = '[n+]'
        parts.append(p)
    text = parts[0] + '1' + ''.join((p + '(C)') if p == '[n+]' else p for p in parts[1:]) + '1'
    if parts[0] == '[n+]':
        text = '[n+]1(C)' + text[len('[n+]1'):]
    # a ring nitrogen written without hydrogen may be pyridine-like (takes a double bond) or, when that is impossible, be
    # completed to a pyrrole-like NH (the library's documented preference: pyridine over pyrrole)
    flex = [i for i, t in enumerate(ring) if t == 'n']
    want = False
    for k in range(len(flex) + 1):
        for off in itertools.combinations(flex, k):
            acceptors = [ACCEPTOR[t] and i not in off for i, t in enumerate(ring)]
            if has_perfect_matching(size, acceptors):
                want = True
                break
        if want:
            break
    if falsify:
        want = not want
    try:
        m = chython.smiles(text)
        m.kekule()
        ok = all(b.order in (1, 2, 3) for *_, b in m.bonds())
    except InvalidAromaticRing:
        ok = False
    V.prove(ok == want, 'a ring is kekulised exactly when its double-bond acceptors can be paired along the ring',
            {'text': text, 'ring': ring})
    if ok:
        V.prove(m.check_valence() == [], 'kekulised template has no valence error', {'text': text})
    V.observe('text', text)


HARNESSES = {'spellings': h_spellings, 'template': h_template}


def finding_key(job, failure):
    info = failure.get('info') or {}
    k = f"{job['harness']}:{failure['label']}"
    if job['harness'] == 'template':
        k += ':' + ''.join(info.get('ring') or [])
    else:
        k += ':' + str(job['params'].get('smi'))
    return k


def jobs(tier):
    T = tier == 'thorough'
    J = []
    for s in (SEEDS_T if T else SEEDS_Q):
        for form in ('aromatic', 'kekule'):
            J.append({'harness': 'spellings', 'params': {'smi': s, 'form': form}, 'budget_s': 600, 'validate_every': 50,
                      'max_failures': 5, 'weight': 10 * len(s)})
    J.append({'harness': 'template', 'params': {'size': 5}, 'budget_s': 600, 'validate_every': 200, 'max_failures': 40})
    J.append({'harness': 'template', 'params': {'size': 6}, 'budget_s': 600, 'validate_every': 200, 'max_failures': 40})
    J.append({'harness': 'template', 'params': {'size': 5, 'falsify': True}, 'twin': True, 'budget_s': 120, 'max_failures': 1,
              'validate': False})
    return J
