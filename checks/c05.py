"""C05 Kekule and aromatic forms describe the same molecule; conversions are stable."""
import itertools

from vlib.spell import respell

PROPERTY = 'C05'

META = {
    'functions_encoded': [
        'chython/algorithms/aromatics/kekule.py: Kekule.kekule, enumerate_kekule, __fix_rings, __prepare_rings, __kekule_full, '
        '_kekule_component', 'chython/algorithms/aromatics/thiele.py: Thiele.thiele',
        'chython/containers/molecule.py: calc_implicit, calc_labels, check_valence',
    ],
    'bounds': {
        'quick': 'every random-order spelling (random() symbolic) of 16 aromatic / aromatisable seeds in aromatic and in Kekule '
                 'form; 5- and 6-membered ring templates with every position solver-enumerated over {c, n, [nH], o, s} (5-ring) '
                 'and {c, n, o, [n+]} (6-ring) against a perfect-matching oracle',
        'thorough': '30 seeds incl. fused and charged systems; 7-ring template',
    },
    'outside_claim': ['unsaturated four-membered rings (recorded gap)', 'more than three fused rings',
                      'the repair rules of _rules.py beyond what the seeds reach'],
    'stubs': ['chython.algorithms.smiles.random -> fresh z3 Real; min -> n-way argmin'],
    'assumptions': [],
}

SEEDS_Q = ['c1ccccc1', 'c1ccncc1', 'c1cc[nH]c1', 'c1ccoc1', 'c1ccsc1', 'Cc1ccccc1', 'c1ccc2ccccc2c1', 'c1ccc2[nH]ccc2c1',
           'O=c1cc[nH]cc1', 'c1cc[n+](C)cc1', '[O-][n+]1ccccc1', 'c1cnccn1', 'c1ccc(cc1)-c1ccccc1', 'c1cn[nH]c1', 'Oc1ccccc1',
           'c1coc(C)n1']
SEEDS_T = SEEDS_Q + ['c1ccc2c(c1)ccc1ccccc12', 'c1ccc2cc3ccccc3cc2c1', 'Cn1cnc2c1c(=O)n(C)c(=O)n2C', 'c1ccc2ncccc2c1',
                     '[cH-]1cccc1', 'c1cc[o+]cc1', 'c1ccc2occc2c1', 'c1ccc2sccc2c1', 'c1cc2cccc3ccc4cccc1c4c32', 'c1ccpcc1',
                     'c1cc[se]c1', 'b1ccccc1' if False else 'c1ccbcc1', 'O=C1C=CC(=O)C=C1', 'C1=CC=CC=C1']


def snapshot(m):
    return {
        'atoms': {n: (a.atomic_number, a.isotope, a.charge, a.is_radical, a.implicit_hydrogens) for n, a in m.atoms()},
        'bonds': sorted((min(x, y), max(x, y)) for x, y, _ in m.bonds()),
        'formula': {k: v for k, v in m.brutto.items() if v} if all(a.implicit_hydrogens is not None for _, a in m.atoms()) else None,
    }


def h_spellings(V, smi, form='aromatic'):
    import chython
    src = chython.smiles(smi)
    src.kekule()
    kek_ref = src.copy()
    src.thiele()
    aro = str(src)
    start = src.copy() if form == 'aromatic' else kek_ref.copy()
    text, order = respell(V, start)
    m = chython.smiles(text)
    info = {'text': text, 'seed': smi}
    had = m.kekule()
    V.prove(all(b.order in (1, 2, 3) for *_, b in m.bonds()), 'Kekule form has only single, double and triple bonds', info)
    V.prove(all(a.implicit_hydrogens is not None for _, a in m.atoms()) and m.check_valence() == [],
            'Kekule form has no valence error and every hydrogen count is known', info)
    k1 = snapshot(m)
    korders = {(min(x, y), max(x, y)): b.order for x, y, b in m.bonds()}
    m.kekule()
    V.prove({(min(x, y), max(x, y)): b.order for x, y, b in m.bonds()} == korders and snapshot(m) == k1,
            'repeating kekule() changes nothing', info)
    # same molecule as the seed under the written correspondence
    corr = {n: i + 1 for i, n in enumerate(order)}
    ref = snapshot(kek_ref)
    V.prove({corr[n]: v for n, v in ref['atoms'].items()} == k1['atoms'], 'elements, isotopes, charges, radicals and hydrogen '
            'counts are those of the seed', dict(info, got=k1['atoms']))
    V.prove(sorted((min(corr[a], corr[b]), max(corr[a], corr[b])) for a, b in ref['bonds']) == k1['bonds'], 'connectivity kept', info)
    V.prove(ref['formula'] == k1['formula'], 'formula kept', info)
    forms = list(m.enumerate_kekule())
    m.thiele()
    V.prove(str(m) == aro, 'aromatic form is the same for every spelling', dict(info, got=str(m), want=aro))
    t1 = snapshot(m)
    s1 = str(m)
    m.thiele()
    V.prove(str(m) == s1 and snapshot(m) == t1, 'repeating thiele() changes nothing', info)
    V.prove(t1['atoms'] == k1['atoms'] and t1['bonds'] == k1['bonds'], 'thiele() keeps atoms, hydrogens and connectivity', info)
    V.prove(len(forms) >= 1, 'at least one Kekule form is enumerated', info)
    for f in forms:
        V.prove(all(b.order in (1, 2, 3) for *_, b in f.bonds()) and f.check_valence() == [], 'every enumerated form is a valid '
                'Kekule structure', info)
        f.thiele()
        V.prove(str(f) == aro, 'every enumerated Kekule form aromatises to the same aromatic form', dict(info, got=str(f)))
    V.observe('text', text)


def has_perfect_matching(n, acceptors, cyclic=True):
    """can the acceptor atoms of a ring be paired up along ring bonds?"""
    acc = [i for i in range(n) if acceptors[i]]
    edges = [(i, (i + 1) % n) for i in range(n if cyclic else n - 1) if acceptors[i] and acceptors[(i + 1) % n]]

    def rec(free):
        if not free:
            return True
        a = min(free)
        for x, y in edges:
            if a in (x, y):
                b = y if x == a else x
                if b in free:
                    if rec(free - {a, b}):
                        return True
        return False
    return rec(frozenset(acc))


TOKENS5 = ['c', 'n', '[nH]', 'o', 's']
TOKENS6 = ['c', 'n', 'o', '[n+]']
ACCEPTOR = {'c': True, 'n': True, '[nH]': False, 'o': False, 's': False, '[n+]': True}


def h_template(V, size, falsify=False):
    """ring template: kekule() succeeds exactly when the double-bond acceptors can be perfectly matched"""
    import chython
    from chython.exceptions import InvalidAromaticRing
    toks = TOKENS5 if size == 5 else TOKENS6
    ring = [V.choice(f't{i}', toks) for i in range(size)]
    # [n+] needs a substituent to be a valid ring atom: write it as [n+](C); o in a six-ring is pyrylium-like only as [o+]
    parts = []
    for i, t in enumerate(ring):
        p = t
        if t == '[n+]':
            p = '[n+]'
        parts.append(p)
    text = parts[0] + '1' + ''.join((p + '(C)') if p == '[n+]' else p for p in parts[1:]) + '1'
    if parts[0] == '[n+]':
        text = '[n+]1(C)' + text[len('[n+]1'):]
    # a ring nitrogen written without hydrogen may be pyridine-like (takes a double bond) or, when that is impossible, be
    # completed to a pyrrole-like NH (the library's documented preference: pyridine over pyrrole)
    flex = [i for i, t in enumerate(ring) if t == 'n']
    want = False
    for k in range(len(flex) + 1):
        for off in itertools.combinations(flex, k):
            acceptors = [ACCEPTOR[t] and i not in off for i, t in enumerate(ring)]
            if has_perfect_matching(size, acceptors):
                want = True
                break
        if want:
            break
    if falsify:
        want = not want
    try:
        m = chython.smiles(text)
        m.kekule()
        ok = all(b.order in (1, 2, 3) for *_, b in m.bonds())
    except InvalidAromaticRing:
        ok = False
    V.prove(ok == want, 'a ring is kekulised exactly when its double-bond acceptors can be paired along the ring',
            {'text': text, 'ring': ring})
    if ok:
        V.prove(m.check_valence() == [], 'kekulised template has no valence error', {'text': text})
    V.observe('text', text)


HARNESSES = {'spellings': h_spellings, 'template': h_template}


def finding_key(job, failure):
    info = failure.get('info') or {}
    k = f"{job['harness']}:{failure['label']}"
    if job['harness'] == 'template':
        k += ':' + ''.join(info.get('ring') or [])
    else:
        k += ':' + str(job['params'].get('smi'))
    return k


def jobs(tier):
    T = tier == 'thorough'
    J = []
    for s in (SEEDS_T if T else SEEDS_Q):
        for form in ('aromatic', 'kekule'):
            J.append({'harness': 'spellings', 'params': {'smi': s, 'form': form}, 'budget_s': 600, 'validate_every': 50,
                      'max_failures': 5, 'weight': 10 * len(s)})
    J.append({'harness': 'template', 'params': {'size': 5}, 'budget_s': 600, 'validate_every': 200, 'max_failures': 40})
    J.append({'harness': 'template', 'params': {'size': 6}, 'budget_s': 600, 'validate_every': 200, 'max_failures': 40})
    J.append({'harness': 'template', 'params': {'size': 5, 'falsify': True}, 'twin': True, 'budget_s': 120, 'max_failures': 1,
              'validate': False})
    return J
