"""C06 Ring perception returns a minimum cycle basis that ring marks agree with."""
import itertools

from vlib.minisym import s_not

PROPERTY = 'C06'

META = {
    'functions_encoded': [
        'chython/algorithms/rings.py: Rings.sssr, rings_count, not_special_connectivity, atoms_rings, atoms_rings_sizes, '
        'connected_components, _sssr, _skin_graph, _bfs, _make_pid, _c_set, _rings_filter, _connected_components',
        'chython/containers/molecule.py: calc_labels (ring marks), aromatic_rings',
    ],
    'bounds': {
        'quick': '22 ring-system skeletons (<= 9 atoms: monocycles, fused, spiro, bridged, linked rings, chains) with every '
                 'bond symbolically ordinary or coordinate (2^bonds cases per skeleton, solver-forked) and every renumbering '
                 'of 8 skeletons with <= 6 atoms and of a 7-atom 3/4/5 tricycle (permutation realised by the solver); every '
                 'labelled connected graph on 4 atoms and on 5 atoms with <= 9 bonds (each possible bond a solver boolean, '
                 'degree <= 4)',
        'thorough': '35 skeletons (<= 10 atoms), renumbering of 15 skeletons; every labelled connected graph on 6 atoms with '
                    '<= 10 bonds (<= 5 rings) and on 7 atoms with <= 9 bonds (<= 3 rings), degree <= 4',
    },
    'outside_claim': ['the two recorded heuristic gaps (bicycles whose three bridges all have >= 3 bonds; dense cages such as 7 '
                      'atoms / 12 bonds) - no such skeleton is used', 'graphs beyond the listed skeletons and the enumerated labelled graphs (7 atoms with 4-5 rings, 8 atoms)'],
    'stubs': [],
    'assumptions': [],
}

SK = {
    'chain4': (4, [(1, 2), (2, 3), (3, 4)]),
    'ring3': (3, [(1, 2), (2, 3), (1, 3)]),
    'ring4': (4, [(1, 2), (2, 3), (3, 4), (4, 1)]),
    'ring5': (5, [(1, 2), (2, 3), (3, 4), (4, 5), (5, 1)]),
    'ring6': (6, [(1, 2), (2, 3), (3, 4), (4, 5), (5, 6), (6, 1)]),
    'ring3-tail': (5, [(1, 2), (2, 3), (1, 3), (3, 4), (4, 5)]),
    'bicyclobutane': (4, [(1, 2), (2, 3), (3, 4), (4, 1), (1, 3)]),
    'spiro33': (5, [(1, 2), (2, 3), (1, 3), (3, 4), (4, 5), (3, 5)]),
    'fused34': (5, [(1, 2), (2, 3), (1, 3), (3, 4), (4, 5), (5, 2)]),
    'fused44': (6, [(1, 2), (2, 3), (3, 4), (4, 1), (3, 5), (5, 6), (6, 4)]),
    'fused55': (8, [(1, 2), (2, 3), (3, 4), (4, 5), (5, 1), (4, 6), (6, 7), (7, 8), (8, 5)]),
    'fused56': (9, [(1, 2), (2, 3), (3, 4), (4, 5), (5, 6), (6, 1), (5, 7), (7, 8), (8, 9), (9, 6)]),
    'norbornane': (7, [(1, 2), (2, 3), (3, 4), (4, 5), (5, 6), (6, 1), (1, 7), (7, 4)]),
    'bicyclo111': (5, [(1, 2), (2, 3), (1, 4), (4, 3), (1, 5), (5, 3)]),
    'bicyclo211': (6, [(1, 2), (2, 3), (3, 4), (1, 5), (5, 4), (1, 6), (6, 4)]),
    'linked33': (6, [(1, 2), (2, 3), (1, 3), (3, 4), (4, 5), (5, 6), (4, 6)]),
    'linked3-1-3': (7, [(1, 2), (2, 3), (1, 3), (3, 4), (4, 5), (5, 6), (6, 7), (5, 7)]),
    'two-components': (6, [(1, 2), (2, 3), (1, 3), (4, 5), (5, 6)]),
    'tetrahedrane': (4, [(1, 2), (1, 3), (1, 4), (2, 3), (2, 4), (3, 4)]),
    'k4-tail': (5, [(1, 2), (1, 3), (1, 4), (2, 3), (2, 4), (3, 4), (4, 5)]),
    'ring4-chord-tail': (5, [(1, 2), (2, 3), (3, 4), (4, 1), (1, 3), (3, 5)]),
    'theta222': (5, [(1, 2), (2, 3), (1, 4), (4, 3), (1, 5), (5, 3)]),
    'house': (5, [(1, 2), (2, 3), (3, 4), (4, 1), (1, 5), (5, 2)]),
    'cubane-face': (6, [(1, 2), (2, 3), (3, 4), (4, 1), (1, 5), (5, 6), (6, 2)]),
    'spiro34': (6, [(1, 2), (2, 3), (1, 3), (3, 4), (4, 5), (5, 6), (6, 3)]),
    'ring7': (7, [(i, i % 7 + 1) for i in range(1, 8)]),
    'ring8': (8, [(i, i % 8 + 1) for i in range(1, 9)]),
    'fused66': (10, [(1, 2), (2, 3), (3, 4), (4, 5), (5, 6), (6, 1), (5, 7), (7, 8), (8, 9), (9, 10), (10, 6)]),
    'fused666-peri': (10, [(1, 2), (2, 3), (3, 4), (4, 5), (5, 6), (6, 1), (6, 7), (7, 8), (8, 9), (9, 1), (9, 10), (10, 2)]),
    'bicyclo221': (7, [(1, 2), (2, 3), (3, 4), (4, 5), (5, 6), (6, 1), (1, 7), (7, 4)]),
    'bicyclo222': (8, [(1, 2), (2, 3), (3, 4), (4, 5), (5, 6), (6, 1), (1, 7), (7, 8), (8, 4)]),
    'ring3-ring4-spiro-tail': (7, [(1, 2), (2, 3), (1, 3), (3, 4), (4, 5), (5, 6), (6, 3), (5, 7)]),
    'three-linked': (9, [(1, 2), (2, 3), (1, 3), (3, 4), (4, 5), (5, 6), (4, 6), (6, 7), (7, 8), (8, 9), (7, 9)]),
    # 3-, 4- and 5-membered rings sharing atoms so that ring selection reaches the condensed-ring phase
    'tricycle345': (7, [(1, 3), (1, 4), (2, 4), (2, 6), (2, 7), (3, 4), (3, 5), (5, 6), (5, 7)]),
    'prism-less': (6, [(1, 2), (2, 3), (3, 1), (4, 5), (5, 6), (1, 4), (2, 5)]),
}
QUICK = ['chain4', 'ring3', 'ring4', 'ring5', 'ring6', 'ring3-tail', 'bicyclobutane', 'spiro33', 'fused34', 'fused44', 'fused55',
         'fused56', 'norbornane', 'bicyclo111', 'bicyclo211', 'linked33', 'linked3-1-3', 'two-components', 'tetrahedrane',
         'k4-tail', 'ring4-chord-tail', 'house']


def build(sk, coord, numbers=None):
    from chython import MoleculeContainer
    from chython.containers.bonds import Bond
    import chython.periodictable as pt
    n, edges = SK[sk]
    numbers = numbers or {i: i for i in range(1, n + 1)}
    m = MoleculeContainer()
    for i in range(1, n + 1):
        m._atoms[numbers[i]] = pt.C()
        m._bonds[numbers[i]] = {}
    for k, (i, j) in enumerate(edges):
        b = Bond(8 if coord[k] else 1)
        m._bonds[numbers[i]][numbers[j]] = m._bonds[numbers[j]][numbers[i]] = b
    return m


def components(nodes, edges):
    adj = {x: set() for x in nodes}
    for a, b in edges:
        adj[a].add(b)
        adj[b].add(a)
    seen, out = set(), []
    for x in nodes:
        if x in seen:
            continue
        st, c = [x], set()
        while st:
            y = st.pop()
            if y in c:
                continue
            c.add(y)
            st.extend(adj[y] - c)
        seen |= c
        out.append(c)
    return out


def simple_cycles(nodes, edges):
    """all simple cycles as frozensets of edges (small graphs only)"""
    adj = {x: set() for x in nodes}
    for a, b in edges:
        adj[a].add(b)
        adj[b].add(a)
    out = set()
    order = sorted(nodes)

    def dfs(start, cur, path, used):
        for nx in adj[cur]:
            if nx == start and len(path) >= 3:
                es = frozenset(frozenset((path[i], path[(i + 1) % len(path)])) for i in range(len(path)))
                out.add(es)
            elif nx not in used and nx > start:
                dfs(start, nx, path + [nx], used | {nx})
    for s in order:
        dfs(s, s, [s], {s})
    return out


def independent(cycles_edges, all_edges):
    """GF(2) rank of the cycles' edge-incidence vectors"""
    idx = {e: i for i, e in enumerate(all_edges)}
    rows = []
    for c in cycles_edges:
        v = 0
        for e in c:
            v |= 1 << idx[e]
        rows.append(v)
    rank = 0
    basis = []
    for v in rows:
        for b in basis:
            v = min(v, v ^ b)
        if v:
            basis.append(v)
            rank += 1
    return rank


def mcb_length(nodes, edges):
    """total length of a minimum cycle basis: greedy over all simple cycles by length (matroid property)"""
    all_edges = [frozenset(e) for e in edges]
    cyc = sorted(simple_cycles(nodes, edges), key=len)
    idx = {e: i for i, e in enumerate(all_edges)}
    basis, total, sizes = [], 0, []
    for c in cyc:
        v = 0
        for e in c:
            v |= 1 << idx[e]
        for b in basis:
            v = min(v, v ^ b)
        if v:
            basis.append(v)
            total += len(c)
            sizes.append(len(c))
    return total, sorted(sizes)


def check_rings(V, m, kept_edges, info, falsify=False):
    nodes = list(m._atoms)
    comps = components(nodes, kept_edges)
    nu = len(kept_edges) - len(nodes) + len(comps)
    sssr = list(m.sssr)
    V.prove(m.rings_count == nu, 'ring count = bonds - atoms + components (coordinate bonds ignored)', info)
    V.prove(len(sssr) == (nu if not falsify else nu + 1), 'number of smallest rings equals the cyclomatic number', info)
    kept = {frozenset(e) for e in kept_edges}
    ring_edges = []
    for r in sssr:
        ok = len(set(r)) == len(r) >= 3
        es = [frozenset((r[i], r[(i + 1) % len(r)])) for i in range(len(r))]
        V.prove(ok and all(e in kept for e in es), 'every ring is a simple cycle of existing ordinary bonds',
                dict(info, ring=list(r)))
        ring_edges.append(frozenset(es))
    V.prove(independent(ring_edges, sorted(kept, key=sorted)) == len(sssr), 'the rings are linearly independent', info)
    want_total, want_sizes = mcb_length(nodes, kept_edges)
    V.prove(sum(len(r) for r in sssr) == want_total, 'total ring size is that of a minimum cycle basis',
            dict(info, got=sorted(len(r) for r in sssr), want=want_sizes))
    V.prove(sorted(len(r) for r in sssr) == want_sizes, 'ring-size multiset equals that of a minimum cycle basis', info)
    # marks
    in_ring_atoms = {a for r in sssr for a in r}
    m.calc_labels()
    for n, a in m.atoms():
        V.prove(a.in_ring == (n in in_ring_atoms), 'atom ring mark agrees with the ring set', dict(info, atom=n))
        V.prove(a.ring_sizes == {len(r) for r in sssr if n in r}, 'atom ring sizes agree with the ring set', dict(info, atom=n))
    on_cycle = set().union(*[c for c in simple_cycles(nodes, kept_edges)]) if nu else set()
    for x, y, b in m.bonds():
        if b.order != 8:
            V.prove(bool(b.in_ring) == (frozenset((x, y)) in on_cycle), 'bond ring mark = the bond lies on a cycle',
                    dict(info, bond=[x, y]))
    all_edges = [(x, y) for x, y, _ in m.bonds()]
    V.prove(sorted(map(sorted, m.connected_components)) == sorted(map(sorted, components(nodes, all_edges))),
            'connected components (coordinate bonds count here)', info)


def h_flags(V, sk, falsify=False):
    n, edges = SK[sk]
    coord = [bool(V.bool(f'coord{k}')) for k in range(len(edges))]
    m = build(sk, coord)
    kept = [e for e, c in zip(edges, coord) if not c]
    check_rings(V, m, kept, {'skeleton': sk, 'coordinate': [e for e, c in zip(edges, coord) if c]}, falsify)
    V.observe('n', len(m.sssr))


def h_renumber(V, sk, first=None):
    n, edges = SK[sk]
    p = [V.int(f'p{i}', 0, n - 1) for i in range(n)]
    V.distinct(*p)
    if first is not None:
        V.assume(p[0] == first)
    pc = [int(x) for x in p]
    numbers = {i + 1: 10 + 3 * pc[i] for i in range(n)}
    m = build(sk, [False] * len(edges), numbers)
    kept = [(numbers[a], numbers[b]) for a, b in edges]
    check_rings(V, m, kept, {'skeleton': sk, 'numbers': numbers})
    base = build(sk, [False] * len(edges))
    V.prove(sorted(len(r) for r in m.sssr) == sorted(len(r) for r in base.sssr),
            'ring-size multiset does not depend on atom numbering', {'skeleton': sk, 'numbers': numbers})
    V.observe('sizes', sorted(len(r) for r in m.sssr))


def h_graphs(V, n, max_edges, fixed=()):
    """every labelled graph on n atoms: each of the n(n-1)/2 possible bonds is a solver boolean"""
    from vlib.oracles import count_true
    pairs = list(itertools.combinations(range(1, n + 1), 2))
    e = [V.bool(f'e{i}_{j}') for i, j in pairs]
    # shards fix the bonds along the path 1-2, 3-4, 5-6, 2-3, 4-5, 6-7 (no atom is cut off by them)
    spine = [(1, 2), (3, 4), (5, 6), (2, 3), (4, 5), (6, 7)]
    for pq, val in zip(spine, fixed):
        k = pairs.index(pq)
        V.assume(e[k] if val else s_not(e[k]))
    cnt = count_true(*e)
    V.assume(cnt <= max_edges)
    V.assume(cnt >= n - 1)
    for a in range(1, n + 1):
        V.assume(count_true(*[x for x, (i, j) in zip(e, pairs) if a in (i, j)]) <= 4)
        V.assume(count_true(*[x for x, (i, j) in zip(e, pairs) if a in (i, j)]) >= 1)
    edges = [pq for pq, x in zip(pairs, e) if bool(x)]
    nodes = list(range(1, n + 1))
    if len(components(nodes, edges)) != 1:
        V.note('disconnected')
        return
    SK['_graph'] = (n, edges)
    try:
        m = build('_graph', [False] * len(edges))
    finally:
        del SK['_graph']
    check_rings(V, m, edges, {'atoms': n, 'edges': edges})
    V.observe('sizes', sorted(len(r) for r in m.sssr))


HARNESSES = {'flags': h_flags, 'renumber': h_renumber, 'graphs': h_graphs}


def jobs(tier):
    T = tier == 'thorough'
    J = []
    for sk in (list(SK) if T else QUICK):
        J.append({'harness': 'flags', 'params': {'sk': sk}, 'budget_s': 1800, 'validate_every': 50, 'max_failures': 10,
                  'weight': 2 ** len(SK[sk][1])})
    J.append({'harness': 'flags', 'params': {'sk': 'ring3', 'falsify': True}, 'twin': True, 'budget_s': 60, 'max_failures': 1})
    ren = [s for s in (list(SK) if T else QUICK) if SK[s][0] <= (7 if T else 6)]
    for sk in (ren if T else ren[:10]):
        J.append({'harness': 'renumber', 'params': {'sk': sk}, 'budget_s': 1800, 'validate_every': 100, 'max_failures': 10,
                  'weight': 500})
    # renumbering of the 7-atom tricycle, split over the first label
    for first in range(7):
        J.append({'harness': 'renumber', 'params': {'sk': 'tricycle345', 'first': first}, 'budget_s': 1800,
                  'validate_every': 200, 'max_failures': 10, 'weight': 700, 'name': f'renumber[tricycle345:{first}]'})
    # every labelled connected graph (degree <= 4)
    for n, me in ((4, 6), (5, 9)) + (((6, 10), (7, 9)) if T else ()):
        nfix = {4: 0, 5: 2, 6: 4, 7: 6}[n]
        for fixed in itertools.product((False, True), repeat=nfix):
            J.append({'harness': 'graphs', 'params': {'n': n, 'max_edges': me, 'fixed': list(fixed)}, 'budget_s': 3000,
                      'validate_every': 500, 'max_failures': 10, 'weight': 2 ** (n * (n - 1) // 2 - nfix) // 50,
                      'name': f'graphs[{n}:{"".join("01"[x] for x in fixed)}]'})
    return J
