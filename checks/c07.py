"""C07 Substructure search returns exactly the set of valid embeddings."""
import itertools

from vlib.minisym import s_and, s_or, s_not, s_iff, is_sym
from checks.c09 import PATTERNS, TARGETS, brute_force

PROPERTY = 'C07'

META = {
    'functions_encoded': [
        'chython/algorithms/isomorphism.py: _compile_query, _get_mapping, Isomorphism._get_mapping (components, scope, '
        'automorphism filter), MoleculeIsomorphism.get_mapping, is_substructure, is_equal, __le__, __lt__, '
        'get_automorphism_mapping, _get_automorphism_mapping',
        'chython/_functions.py: lazy_product', 'chython/periodictable/base/element.py: Element.__eq__; bonds.py: Bond.__eq__',
    ],
    'bounds': {
        'quick': 'label-generic core: patterns <= 3 atoms in targets <= 4 atoms with every atom and bond label an unconstrained '
                 'integer (compared only by ==, so one path covers all label values with one equality pattern); containers: '
                 'patterns <= 3 atoms (incl. two components) in targets <= 5 atoms (incl. two components) with every charge '
                 'symbolic, scope subsets symbolic, both settings of the automorphism filter; lazy_product for 2-3 iterators of '
                 'symbolic length 0..3',
        'thorough': 'patterns <= 4 / targets <= 5 with symbolic bond orders as well',
    },
    'outside_claim': ['targets larger than 5 atoms', 'SMARTS-specific primitives (C08) and the compiled matcher (C09)'],
    'stubs': [],
    'assumptions': ['graph shapes and atom numbers are concrete (dictionary keys): enumerated by the job list'],
}


def _labels(V, prefix, n, edges, lo=None, hi=None):
    atoms = {i: V.int(f'{prefix}a{i}', lo, hi) for i in range(1, n + 1)}
    bonds = {i: {} for i in range(1, n + 1)}
    for k, (i, j) in enumerate(edges):
        b = V.int(f'{prefix}b{k}', lo, hi)
        bonds[i][j] = b
        bonds[j][i] = b
    return atoms, bonds


def h_core(V, pattern, target, bond_labels=True, falsify=False):
    """label-generic matcher core on arbitrary integer labels"""
    from chython.algorithms.isomorphism import _compile_query, _get_mapping
    pn, pe = PATTERNS[pattern]
    tn, te = TARGETS[target]
    qa, qb = _labels(V, 'q', pn, pe)
    ta, tb = _labels(V, 't', tn, te)
    if not bond_labels:
        for d in (qb, tb):
            for i in d:
                for j in d[i]:
                    d[i][j] = 1
    comps, clos = _compile_query(qa, qb)
    V.prove(len(comps) == 1, 'connected pattern compiles to one component')
    V.prove(sorted(x[0] for x in comps[0]) == sorted(qa), 'linearisation visits every pattern atom once')
    got = sorted(tuple(sorted(m.items())) for m in _get_mapping(comps[0], clos, ta, tb, set(ta)))
    ref = brute_force(qa, qb, ta, tb, [set(ta)], lambda x, y: bool(x == y), lambda x, y: bool(x == y))
    if falsify:
        ref = ref[1:] if ref else [((1, 1),)]
    V.prove(got == ref, 'matcher core returns exactly the valid embeddings', {'pattern': pattern, 'target': target,
            'got': got, 'ref': ref})
    V.prove(len(set(got)) == len(got), 'no embedding is returned twice')
    V.observe('n', len(got))


def _mol(V, prefix, n, edges, sym_orders=False, charges=(0, 1), base=0):
    from chython import MoleculeContainer
    from chython.containers.bonds import Bond
    import chython.periodictable as pt
    m = MoleculeContainer()
    for i in range(1, n + 1):
        a = pt.C()
        a._charge = V.int(f'{prefix}c{i}', *charges)
        m._atoms[base + i] = a
        m._bonds[base + i] = {}
    for k, (i, j) in enumerate(edges):
        b = object.__new__(Bond)
        b._order = V.int(f'{prefix}o{k}', 1, 2) if sym_orders else 1
        b._stereo = None
        b._in_ring = False
        m._bonds[base + i][base + j] = m._bonds[base + j][base + i] = b
    return m


def h_container(V, pattern, target, sym_orders=False, falsify=False):
    """MoleculeContainer.get_mapping with components, scope and automorphism filter against brute force"""
    pn, pe = PATTERNS[pattern]
    tn, te = TARGETS[target]
    q = _mol(V, 'q', pn, pe, sym_orders)
    t = _mol(V, 't', tn, te, sym_orders, base=10)
    scope_mode = V.choice('scope', ['none', 'subset'])
    scope = None
    if scope_mode == 'subset':
        bits = [bool(V.bool(f's{n}')) for n in t._atoms]
        scope = [n for n, b in zip(t._atoms, bits) if b]
        V.assume(len(scope) > 0)
    af = bool(V.bool('automorphism_filter'))
    # collected first and read afterwards: each returned mapping must be an object of its own
    collected = list(q.get_mapping(t, automorphism_filter=af, searching_scope=scope))
    got = [tuple(sorted(m.items())) for m in collected]
    ref = brute_force(q._atoms, q._bonds, t._atoms, t._bonds, t.connected_components,
                      lambda x, y: bool(x == y), lambda x, y: bool(x == y))
    if scope is not None:
        ref = [m for m in ref if all(v in scope for _, v in m)]
    info = {'pattern': pattern, 'target': target, 'scope': scope, 'filter': af}
    V.prove(len(set(got)) == len(got), 'no mapping is returned twice', info)
    if af:
        images = {frozenset(v for _, v in m) for m in ref}
        got_images = [frozenset(v for _, v in m) for m in got]
        V.prove(set(got_images) == images and len(got_images) == len(images),
                'with the automorphism filter exactly one mapping per image set remains', dict(info, got=got, ref=ref))
        V.prove(all(m in ref for m in got), 'every filtered mapping is a valid embedding', info)
    else:
        if falsify:
            ref = ref[1:] if ref else [((1, 11),)]
        V.prove(sorted(got) == ref, 'mappings are exactly the valid embeddings', dict(info, got=sorted(got), ref=ref))
    if scope is None:
        V.prove((q <= t) == bool(ref), 'a <= b agrees with the embedding set', info)
        V.prove((q < t) == (bool(ref) and len(q) < len(t)), 'a < b agrees with the embedding set', info)
        V.prove(q.is_substructure(t) == bool(ref), 'is_substructure agrees', info)
        V.prove(q.is_equal(t) == (bool(ref) and len(q) == len(t)), 'is_equal agrees', info)
    V.observe('n', len(got))


def h_lazy_product(V, k=2, falsify=False):
    from chython._functions import lazy_product
    lens = [int(V.int(f'len{i}', 0, 3)) for i in range(k)]
    its = [[(i, j) for j in range(n)] for i, n in enumerate(lens)]
    got = list(lazy_product(*[iter(x) for x in its]))
    ref = list(itertools.product(*its))
    if falsify:
        ref = ref[:-1] if ref else [()]
    V.prove(len(got) == len(set(got)), 'no tuple twice', {'lens': lens})
    V.prove(set(got) == set(ref), 'same set as the cartesian product', {'lens': lens, 'got': got[:8]})
    V.observe('n', len(got))


def h_automorphism(V, shape, sym_orders=False):
    """get_automorphism_mapping = all non-identity label-preserving automorphisms"""
    n, e = TARGETS[shape]
    m = _mol(V, 'm', n, e, sym_orders)
    # atoms_order / _chiral_morgan hash the labels: realised; the claim is over the solver-enumerated label assignments
    m.calc_labels()
    for k in m._atoms:
        m._atoms[k]._implicit_hydrogens = 0
    got = sorted(tuple(sorted(x.items())) for x in m.get_automorphism_mapping())
    nums = list(m._atoms)
    ref = []
    for perm in itertools.permutations(nums):
        mp = dict(zip(nums, perm))
        if all(k == v for k, v in mp.items()):
            continue
        if not all(bool(m._atoms[k]._charge == m._atoms[v]._charge) for k, v in mp.items()):
            continue
        ok = True
        for a, b in itertools.combinations(nums, 2):
            ba, bb = m._bonds[a].get(b), m._bonds[mp[a]].get(mp[b])
            if (ba is None) != (bb is None) or (ba is not None and not bool(ba._order == bb._order)):
                ok = False
                break
        if ok:
            ref.append(tuple(sorted(mp.items())))
    V.prove(len(set(got)) == len(got), 'no automorphism twice')
    if len(m.connected_components) == 1:
        V.prove(got == sorted(ref), 'automorphism generator returns exactly the non-identity automorphisms',
                {'shape': shape, 'got': got[:6], 'ref': sorted(ref)[:6]})
        V.prove(m.is_automorphic() == bool(ref), 'is_automorphic agrees')
    else:
        # the generator works component by component: exchanges of whole identical components are not produced (not
        # part of the property statement): every mapping it does return must be a true automorphism, and all
        # automorphisms that keep every atom in its component must be there
        comp = {a: i for i, c in enumerate(m.connected_components) for a in c}
        inner = [x for x in ref if all(comp[k] == comp[v] for k, v in x)]
        V.prove(got == sorted(inner), 'automorphism generator returns exactly the component-preserving automorphisms',
                {'shape': shape, 'got': got[:6], 'ref': sorted(inner)[:6]})
    V.observe('n', len(got))


STEREO_Q = {
    'bond': {None: 'FC=CCl', True: 'F/C=C\\Cl', False: 'F/C=C/Cl'},
    'atom': {None: 'FC(Cl)(Br)I', True: 'F[C@](Cl)(Br)I', False: 'F[C@@](Cl)(Br)I'},
    # the stereo atom does not open a ring closure here: the library's SMARTS dialect orders the neighbours of a query atom
    # by bond creation (a closure counts where it is closed), which its own reactor tests rely on - not part of the claim
    'ring_atom': {None: 'O1C(C)CC1', True: 'O1[C@H](C)CC1', False: 'O1[C@@H](C)CC1'},
}


def h_query_stereo(V, kind, as_query=True, falsify=False):
    """a stereo label on the pattern restricts the match to images with the same configuration; an unlabelled pattern
    matches every configuration; the target goes through every random-order spelling"""
    import chython
    from vlib.spell import respell
    texts = STEREO_Q[kind]
    qs = V.choice('pattern_label', [None, True, False])
    ts = V.choice('target_label', [None, True, False])
    q = chython.smarts(texts[qs].replace('[C@H]', '[C@;h1]').replace('[C@@H]', '[C@@;h1]')) if as_query \
        else chython.smiles(texts[qs])
    text, order = respell(V, chython.smiles(texts[ts]))
    t = chython.smiles(text)
    want = qs is None or qs == ts or not as_query      # molecule patterns compare constitution only
    if falsify:
        want = not want
    collected = list(q.get_mapping(t))
    info = {'pattern': texts[qs], 'target': text, 'query': as_query}
    V.prove(bool(collected) == want, 'a labelled pattern matches exactly the images with the same configuration; an '
            'unlabelled one matches all', info)
    V.prove((q <= t) == want, 'a <= b agrees', info)
    V.prove(len({tuple(sorted(m.items())) for m in collected}) == len(collected), 'no mapping twice', info)
    V.observe('text', text)


HARNESSES = {'query_stereo': h_query_stereo, 'core': h_core, 'container': h_container, 'lazy_product': h_lazy_product, 'automorphism': h_automorphism}


def jobs(tier):
    T = tier == 'thorough'
    J = []
    core = [('p2', 't_p3', True), ('p3', 't_tri', True), ('p3', 't_ring4', False), ('tri', 't_tadpole', False),
            ('tri', 't_diamond', False), ('p3', 't_star4', False)]
    if T:
        core = [(p, t, True) for p, t, _ in core] + [('ring4', 't_house', False), ('p4', 't_ring5', False),
                                                      ('star4', 't_house', False), ('ring4', 't_cage5', False)]
    for p, t, bl in core:
        J.append({'harness': 'core', 'params': {'pattern': p, 'target': t, 'bond_labels': bl}, 'budget_s': 3000,
                  'validate_every': 100, 'weight': 1500})
    J.append({'harness': 'core', 'params': {'pattern': 'p2', 'target': 't_p3', 'falsify': True}, 'twin': True, 'budget_s': 300,
              'max_failures': 1, 'validate': False})
    cont = [('p2', 't_p3'), ('p3', 't_ring4'), ('tri', 't_tadpole'), ('two', 't_p2p2'), ('p2+1', 't_p2p2'),
            ('p3', 't_p3'), ('tri', 't_tri'), ('two', 't_p3')]
    big = [('p2+1', 't_tri+p2'), ('ring4', 't_house'), ('p4', 't_ring5'), ('tri', 't_diamond'), ('p2+1', 't_ring5'),
           ('ring4', 't_cage5')] if T else []
    # bond orders symbolic as well in thorough, for the smaller pairs only (4-atom patterns on 5-atom targets did not finish
    # in 50 minutes with them: run with concrete single bonds)
    for p, t in cont:
        J.append({'harness': 'container', 'params': {'pattern': p, 'target': t, 'sym_orders': T and (p, t) != ('tri', 't_tadpole')},
                  'budget_s': 3000, 'validate_every': 100, 'weight': 1000})
    for p, t in big:
        J.append({'harness': 'container', 'params': {'pattern': p, 'target': t, 'sym_orders': False}, 'budget_s': 3000,
                  'validate_every': 100, 'weight': 1000})
    J.append({'harness': 'container', 'params': {'pattern': 'p2', 'target': 't_p3', 'falsify': True}, 'twin': True,
              'budget_s': 300, 'max_failures': 1, 'validate': False})
    for kind in STEREO_Q:
        for asq in (True, False):
            J.append({'harness': 'query_stereo', 'params': {'kind': kind, 'as_query': asq}, 'budget_s': 600,
                      'validate_every': 50, 'max_failures': 10})
    J.append({'harness': 'query_stereo', 'params': {'kind': 'bond', 'falsify': True}, 'twin': True, 'budget_s': 120,
              'max_failures': 1, 'validate': False})
    for k in (1, 2, 3):
        J.append({'harness': 'lazy_product', 'params': {'k': k}, 'budget_s': 300})
    J.append({'harness': 'lazy_product', 'params': {'k': 2, 'falsify': True}, 'twin': True, 'budget_s': 120, 'max_failures': 1})
    for sh in ['t_p3', 't_tri', 't_ring4', 't_star4', 't_p2p2'] + (['t_diamond', 't_ring5', 't_house'] if T else []):
        J.append({'harness': 'automorphism', 'params': {'shape': sh, 'sym_orders': False}, 'budget_s': 1200, 'validate_every': 50})
    return J
