"""C01 Canonical SMILES, equality and hash depend on structure only."""
import itertools

from vlib.minisym import s_and, s_or, s_not, s_iff
from vlib.spell import respell, symbolic_random
from vlib import seeds

PROPERTY = 'C01'

META = {
    'functions_encoded': [
        'chython/algorithms/smiles.py: Smiles._smiles (random and canonical order), __str__, __eq__, __hash__, '
        'MoleculeSmiles._format_atom/_format_bond/__ct_map, _smiles_order',
        'chython/algorithms/morgan.py: _morgan, Morgan.atoms_order; chython/algorithms/stereo.py: _chiral_morgan',
        'chython/files/daylight: smiles(), tokenizer, parser (re-reading each spelling)',
        'chython/containers/graph.py: remap; MoleculeContainer.add_atom/add_bond (rebuild in another order)',
    ],
    'bounds': {
        'quick': 'every spelling the random-order writer can produce (random() values symbolic) of 34 seeds with <= 7 heavy '
                 'atoms; every renumbering / insertion order (permutation realised by the solver) of seeds with <= 5 atoms',
        'thorough': '56 seeds up to 15 heavy atoms (spellings), permutations up to 6 atoms',
    },
    'outside_claim': ['the two documented heuristic gaps (pseudo-asymmetric ring stereo, prismane-like cages)',
                      'spellings of other toolkits (only RDKit spellings, under C20)',
                      'ties between random weights (probability zero)', 'hash collisions of CPython tuple hashing'],
    'stubs': ['chython.algorithms.smiles.random -> fresh z3 Real in [0,1) per call',
              'min in chython.algorithms.smiles -> n-way argmin (one branch per candidate)'],
    'assumptions': ['floats from random() modelled as reals'],
}

_M = {}


def mol_of(smi):
    import chython
    if smi not in _M:
        m = chython.smiles(smi)
        if any(b.order == 4 for *_, b in m.bonds()):
            # "once aromaticity is normalised": aromatic input is brought to the library's own aromatic form, which also
            # gives every ring atom a defined hydrogen count
            m.kekule()
            m.thiele()
        else:
            m.thiele()      # a Kekule spelling is normalised too (the property compares strings "once aromaticity is normalised")
        _M[smi] = m
    return _M[smi]


def h_respell(V, smi, falsify=False):
    import chython
    src = mol_of(smi)
    base = str(src)
    m = src.copy()
    text, order = respell(V, m)
    back = chython.smiles(text)
    want = base if not falsify else base + 'C'
    V.prove(str(back) == want, 'every spelling re-reads to the same canonical string', {'text': text, 'seed': smi,
            'got': str(back)})
    V.prove(hash(back) == hash(src) and back == src, 'equal and hash-equal to the original', {'text': text})
    V.prove(len(back) == len(src), 'same atom count')
    # atoms_order (canonical ranks) is transported along the written order: back atom i+1 <-> order[i]
    ao_b, ao_s = back.atoms_order, src.atoms_order
    V.prove(all(ao_b[i + 1] == ao_s[n] for i, n in enumerate(order)), 'canonical atom ranks agree under the written '
            'correspondence', {'text': text})
    # canonical traversal visits corresponding atoms
    sb = [order[i - 1] for i in back.smiles_atoms_order]
    ss = list(src.smiles_atoms_order)
    V.prove([ao_s[x] for x in sb] == [ao_s[x] for x in ss], 'canonical traversal visits the same ranks', {'text': text})
    V.observe('text', text)


def h_renumber(V, smi, falsify=False):
    """remap by a symbolic permutation and rebuild with atoms/bonds inserted in permuted order"""
    from chython import MoleculeContainer
    src = mol_of(smi)
    base = str(src)
    nums = list(src._atoms)
    n = len(nums)
    p = [V.int(f'p{i}', 0, n - 1) for i in range(n)]
    V.distinct(*p)
    pc = [int(x) for x in p]                       # dict keys: realised, the solver enumerates the permutations
    mapping = {nums[i]: 100 + 7 * pc[i] for i in range(n)}
    rem = src.copy()
    str(rem), rem.sssr          # fill the caches first: remap must invalidate them
    rem.remap(mapping)
    V.prove(str(rem) == base and rem == src and hash(rem) == hash(src), 'renumbering keeps the canonical string',
            {'seed': smi, 'perm': pc})
    # rebuild: atoms in permuted order, bonds in (another) permuted order
    new = MoleculeContainer()
    for i in sorted(range(n), key=lambda i: pc[i]):
        a = src._atoms[nums[i]]
        new.add_atom(a.copy(), nums[i], _skip_calculation=True)
        new._atoms[nums[i]]._implicit_hydrogens = None
    bl = [(a, b, bond) for a, b, bond in src.bonds()]
    bl.sort(key=lambda t: (pc[nums.index(t[0])] * 31 + pc[nums.index(t[1])] * 17) % 13)
    for a, b, bond in bl:
        if pc[nums.index(a)] % 2:
            a, b = b, a
        new.add_bond(a, b, bond.copy(), _skip_calculation=True)
    new.fix_structure()
    # stereo labels: transfer through the public API in the neighbour order of the source
    for c, at in src.atoms():
        if at.stereo is not None:
            if c in src.stereogenic_tetrahedrons:
                env = src.stereogenic_tetrahedrons[c]
                new.add_atom_stereo(c, env, src._translate_tetrahedron_sign(c, env))
            else:
                t = src.stereogenic_allenes[c]
                new.add_atom_stereo(c, t[:2], src._translate_allene_sign(c, *t[:2]))
    for a, b, bond in src.bonds():
        if bond.stereo is not None:
            t1, t2 = src._stereo_cis_trans_terminals[a]
            e = src.stereogenic_cis_trans[(t1, t2)]
            new.add_cis_trans_stereo(t1, t2, e[0], e[1], src._translate_cis_trans_sign(t1, t2, e[0], e[1]))
    if any(b.order == 4 for *_, b in src.bonds()):
        new.kekule()
        new.thiele()
    want = base if not falsify else base + 'C'
    V.prove(str(new) == want, 'insertion order of atoms and bonds does not matter', {'seed': smi, 'perm': pc,
            'got': str(new)})
    V.observe('perm', pc)


HARNESSES = {'respell': h_respell, 'renumber': h_renumber}


def heavy(smi):
    return len(mol_of(smi))


def jobs(tier):
    T = tier == 'thorough'
    J = []
    for s in list(seeds.THOROUGH if T else seeds.QUICK) + seeds.C01_ONLY:
        J.append({'harness': 'respell', 'params': {'smi': s}, 'budget_s': 1800 if T else 600, 'validate_every': 25,
                  'weight': 10 * len(s)})
    J.append({'harness': 'respell', 'params': {'smi': 'CCO', 'falsify': True}, 'twin': True, 'budget_s': 120,
              'max_failures': 1})
    small = [s for s in seeds.QUICK if '.' not in s or True]
    for s in small:
        n_at = sum(1 for ch in s if ch.isupper())
        if n_at <= (6 if T else 5):
            J.append({'harness': 'renumber', 'params': {'smi': s}, 'budget_s': 900, 'validate_every': 25, 'weight': 50})
    J.append({'harness': 'renumber', 'params': {'smi': 'CCO', 'falsify': True}, 'twin': True, 'budget_s': 120,
              'max_failures': 1})
    return J
