"""C11 MDL (V2000/V3000) and MRV files: write then read preserves the record (clauses with symbolic content)."""
import io

from vlib.minisym import s_and, s_or

PROPERTY = 'C11'

META = {
    'functions_encoded': [
        'chython/files/mdl/write.py: MOLWrite._write_molecule, EMOLWrite._write_molecule; chython/files/SDFrw.py, RDFrw.py: '
        'SDFWrite, ESDFWrite, RDFWrite, ERDFWrite, SDFRead, RDFRead; chython/files/MRVrw.py: MRVWrite, MRVRead',
        'chython/files/mdl/mol.py: parse_mol_v2000 (charge codes, M CHG/ISO/RAD); emol.py: parse_mol_v3000; rxn.py, erxn.py',
        'chython/algorithms/stereo.py: _wedge_map, add_wedge, calculate_cis_trans_from_2d (through files/mdl/stereo.py)',
    ],
    'bounds': {
        'quick': 'records of <= 3 atoms with charge -4..4, isotope, radical flag, atom number (1, 999, 1000), bond order '
                 '(1,2,3,4,8) as solver variables (realised when the writer formats them: solver-enumerated finite domain), '
                 'in first, middle or last position, through all five writers and their readers; reactions with role counts 0..2 '
                 'and a wedged molecule in a solver-chosen role; title and one metadata item; '
                 'two stereo seeds with hand-set 2-D coordinates through every format',
        'thorough': 'role counts 0..3, two variable atoms at a time',
    },
    'outside_claim': ['record splitting, skipping of damaged records, random access by index, metadata escaping over all '
                      'printable text, files written by other programs: text plumbing with nothing symbolic left - not '
                      'claimed by this technique', 'the wedge <-> sign relation for all real coordinates is decided under C12 '
                      '(wedge_roundtrip, cis_trans_2d_smiles); here coordinates pass through text as concrete values',
                      'explicit hydrogens on stereocentres (the recorded writer/reader asymmetry)'],
    'stubs': [],
    'assumptions': [],
}


class KeepS(io.StringIO):
    def close(self):
        self.data = self.getvalue()
        super().close()


def write_read(fmt, obj):
    from chython.files import SDFRead, SDFWrite, ESDFWrite, RDFRead, RDFWrite, ERDFWrite, MRVRead, MRVWrite
    W, R = {'sdf': (SDFWrite, SDFRead), 'esdf': (ESDFWrite, SDFRead), 'rdf': (RDFWrite, RDFRead),
            'erdf': (ERDFWrite, RDFRead), 'mrv': (MRVWrite, MRVRead)}[fmt]
    f = KeepS()
    w = W(f)
    w.write(obj)
    w.close()
    data = getattr(f, 'data', None)
    if data is None:
        data = f.getvalue()
    src = io.BytesIO(data.encode()) if fmt == 'mrv' else io.StringIO(data)
    return list(R(src, calc_cis_trans=True)), data


def fields(m):
    return ({n: (a.atomic_number, a.isotope, a.charge, a.is_radical) for n, a in m.atoms()},
            {(min(x, y), max(x, y)): b.order for x, y, b in m.bonds()}, list(m._atoms))


def h_record(V, fmt, falsify=False):
    import chython
    from chython import MoleculeContainer
    from chython.containers.bonds import Bond
    import chython.periodictable as pt
    el = V.choice('el', ['C', 'N', 'Fe', 'Cl'])
    cls = getattr(pt, el)
    isos = sorted(object.__new__(cls).isotopes_distribution)
    iso = V.choice('iso', [None, isos[0], isos[-1]])
    charge = int(V.int('charge', -4, 4))
    rad = bool(V.bool('radical'))
    num = V.choice('number', [1, 999, 1000])
    order = V.choice('order', [1, 2, 3, 4, 8])
    pos = V.int('position', 0, 2)
    # the decorated atom may be first, middle or last in the record; large numbers and non-single bonds with it first only
    V.assume(s_or(pos == 0, s_and(num == 1, order == 1)))
    pos = int(pos)
    m = MoleculeContainer()
    others = [pt.C(), pt.O()]
    for k in range(3):
        m.add_atom(cls(iso, charge=charge, is_radical=rad) if k == pos else others.pop(0), num + k, _skip_calculation=True)
    m.add_bond(num, num + 1, Bond(order), _skip_calculation=True)
    m.add_bond(num + 1, num + 2, Bond(1), _skip_calculation=True)
    num_first, num = num, num + pos
    m.calc_labels()
    for n in m._atoms:
        m.calc_implicit(n)
    m.name = 'title'
    m.meta['key'] = 'value'
    info = {'format': fmt, 'element': el, 'isotope': iso, 'charge': charge, 'radical': rad, 'number': num_first, 'order': order,
            'position': pos}
    try:
        out, data = write_read(fmt, m)
    except ValueError as e:
        # the fixed-column V2000 writers refuse atom numbers that do not fit three columns: a loud refusal, not a loss
        V.prove(fmt in ('sdf', 'rdf') and max(m._atoms) > 999, 'a record is refused only for the documented V2000 limit',
                dict(info, error=str(e)))
        return
    V.prove(len(out) == 1 and isinstance(out[0], MoleculeContainer), 'one molecule record comes back', info)
    if len(out) != 1:
        return
    got, want = fields(out[0]), fields(m)
    if falsify:
        want[0][num] = (want[0][num][0], want[0][num][1], want[0][num][2] + 1, want[0][num][3])
    V.prove(got[2] == want[2], 'atom order and numbers preserved', dict(info, got=got[2]))
    V.prove(got[0] == want[0], 'elements, isotopes, charges and radical flags preserved', dict(info, got=str(got[0])))
    V.prove(got[1] == want[1], 'bond orders (incl. aromatic and coordinate) preserved', dict(info, got=str(got[1])))
    V.prove(out[0].name == 'title' and dict(out[0].meta).get('key') == 'value', 'title and metadata preserved', info)
    V.observe('len', len(data))


POOL = ['CCO', 'CC(=O)O', '[Na+]', 'c1ccccc1', '[Cl-]', 'O', 'N', 'C[N+](C)(C)C', 'CC=O']


def h_reaction(V, fmt, maxn=2):
    import chython
    from chython import ReactionContainer
    counts = [int(V.int(k, 0, maxn)) for k in ('reactants', 'reagents', 'products')]
    V.assume(sum(counts) > 0)
    it = iter(POOL)
    roles = [[chython.smiles(next(it)) for _ in range(k)] for k in counts]
    # one molecule with wedges (2-D coordinates) in a solver-chosen role
    srole = V.choice('stereo_role', [None, 0, 1, 2])
    if srole is not None:
        sm = chython.smiles('C[C@H](N)O')
        for n, (x, y) in STEREO['C[C@H](N)O'].items():
            sm.atom(n).x, sm.atom(n).y = x, y
        roles[srole].append(sm)
    # distinct atom numbers across the reaction (mapping numbers)
    k = 1
    for ms in roles:
        for mol in ms:
            mol.remap({n: 1000 + i for i, n in enumerate(list(mol))})
            mol.remap({n: k + i for i, n in enumerate(list(mol))})
            k += len(mol)
    r = ReactionContainer(roles[0], roles[2], roles[1])
    r.name = 'rxn'
    r.meta['k'] = 'v'
    out, data = write_read(fmt, r)
    info = {'format': fmt, 'roles': counts, 'stereo_role': srole}
    V.prove(len(out) == 1 and isinstance(out[0], ReactionContainer), 'one reaction record comes back', info)
    if len(out) != 1 or not isinstance(out[0], ReactionContainer):
        return
    b = out[0]
    for name in ('reactants', 'reagents', 'products'):
        V.prove([str(x) for x in getattr(b, name)] == [str(x) for x in getattr(r, name)], f'{name} preserved in order',
                dict(info, got=[str(x) for x in getattr(b, name)]))
        V.prove([list(x._atoms) for x in getattr(b, name)] == [list(x._atoms) for x in getattr(r, name)],
                'mapping numbers preserved', info)
    V.prove(dict(b.meta).get('k') == 'v', 'metadata preserved', info)
    V.observe('len', len(data))


STEREO = {
    'C[C@H](N)O': {1: (-1.3, 0.0), 2: (0.0, 0.0), 3: (0.65, 1.1), 4: (0.65, -1.1)},
    'F/C=C/Cl': {1: (-1.95, 0.75), 2: (-0.65, 0.0), 3: (0.65, 0.75), 4: (1.95, 0.0)},
    'C[C@H](O)/C=C/F': {1: (-1.3, 0.75), 2: (0.0, 0.0), 3: (0.0, -1.5), 4: (1.3, 0.75), 5: (2.6, 0.0), 6: (3.9, 0.75)},
}


def h_stereo(V, fmt):
    import chython
    smi = V.choice('seed', sorted(STEREO))
    flip = bool(V.bool('mirror'))
    m = chython.smiles(smi)
    for n, (x, y) in STEREO[smi].items():
        m.atom(n).x = x
        m.atom(n).y = -y if flip else y
    if flip:      # the mirrored drawing with the same labels is the other enantiomer drawn consistently: flip the labels
        for _, a in m.atoms():
            if a.stereo is not None:
                a._stereo = not a._stereo
        m.flush_cache()
    out, data = write_read(fmt, m)
    info = {'format': fmt, 'seed': smi, 'mirror': flip}
    V.prove(len(out) == 1, 'one record', info)
    if len(out) == 1:
        V.prove(str(out[0]) == str(m), 'tetrahedral and cis/trans configuration survive the file (2-D coordinates present)',
                dict(info, got=str(out[0]), want=str(m)))
    V.observe('len', len(data))


HARNESSES = {'record': h_record, 'reaction': h_reaction, 'stereo': h_stereo}


def finding_key(job, failure):
    info = failure.get('info') or {}
    return f"{job['harness']}:{failure['label']}:{job['params'].get('fmt')}:{info.get('order', '')}:{info.get('roles', '')}"


def jobs(tier):
    T = tier == 'thorough'
    J = []
    for fmt in ('sdf', 'esdf', 'rdf', 'erdf', 'mrv'):
        J.append({'harness': 'record', 'params': {'fmt': fmt}, 'budget_s': 900, 'validate_every': 200, 'max_failures': 20,
                  'weight': 500})
        J.append({'harness': 'stereo', 'params': {'fmt': fmt}, 'budget_s': 120, 'max_failures': 10})
    for fmt in ('rdf', 'erdf', 'mrv'):
        J.append({'harness': 'reaction', 'params': {'fmt': fmt, 'maxn': 3 if T else 2}, 'budget_s': 600, 'validate_every': 10,
                  'max_failures': 20})
    J.append({'harness': 'record', 'params': {'fmt': 'sdf', 'falsify': True}, 'twin': True, 'budget_s': 120, 'max_failures': 1,
              'validate': False})
    return J
