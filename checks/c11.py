"""C11 MDL (V2000/V3000) and MRV files: write then read preserves the record (clauses with symbolic content)."""
import io

from vlib.minisym import s_and, s_or

PROPERTY = 'C11'

META = {
    'functions_encoded': [
        'chython/files/mdl/write.py: MOLWrite._write_molecule, EMOLWrite._write_molecule; chython/files/SDFrw.py, RDFrw.py: '
        'SDFWrite, ESDFWrite, RDFWrite, ERDFWrite, SDFRead, RDFRead; chython/files/MRVrw.py: MRVWrite, MRVRead',
        'chython/files/mdl/mol.py: parse_mol_v2000 (charge codes, M CHG/ISO/RAD); emol.py: parse_mol_v3000; rxn.py, erxn.py',
        'chython/algorithms/stereo.py: _wedge_map, add_wedge, calculate_cis_trans_from_2d (through files/mdl/stereo.py)',
    ],
    'bounds': {
        'quick': 'records of <= 3 atoms with charge -4..4, isotope, radical flag, atom number (1, 999, 1000), bond order '
                 '(1,2,3,4,8) as solver variables (realised when the writer formats them: solver-enumerated finite domain), '
                 'in first, middle or last position, through all five writers and their readers; reactions with role counts 0..2 '
                 'and a wedged molecule in a solver-chosen role; title and one metadata item; '
                 'eight stereo seeds (incl. meso triols, an allene) with hand-set 2-D coordinates through every format with the '
                 'default and the cis/trans-calculating reader; the bond block in every order (solver permutation); files of '
                 '1..3 records: access by index / seek / slice = sequential reading, a record with a broken counts line at a '
                 'solver-chosen position is skipped',
        'thorough': 'role counts 0..3, two variable atoms at a time',
    },
    'outside_claim': ['metadata escaping over all printable text; damaged records other than a broken counts line; files '
                      'of other programs beyond a permuted bond block', 'the wedge <-> sign relation for all real coordinates is decided under C12 '
                      '(wedge_roundtrip, cis_trans_2d_smiles); here coordinates pass through text as concrete values',
                      'explicit hydrogens on stereocentres (the recorded writer/reader asymmetry)'],
    'stubs': [],
    'assumptions': [],
}


class KeepS(io.StringIO):
    def close(self):
        self.data = self.getvalue()
        super().close()


def write_read(fmt, obj, calc_cis_trans=True):
    from chython.files import SDFRead, SDFWrite, ESDFWrite, RDFRead, RDFWrite, ERDFWrite, MRVRead, MRVWrite
    W, R = {'sdf': (SDFWrite, SDFRead), 'esdf': (ESDFWrite, SDFRead), 'rdf': (RDFWrite, RDFRead),
            'erdf': (ERDFWrite, RDFRead), 'mrv': (MRVWrite, MRVRead)}[fmt]
    f = KeepS()
    w = W(f)
    w.write(obj)
    w.close()
    data = getattr(f, 'data', None)
    if data is None:
        data = f.getvalue()
    return read_text(fmt, data, calc_cis_trans), data


def read_text(fmt, data, calc_cis_trans=True):
    from chython.files import SDFRead, RDFRead, MRVRead
    R = {'sdf': SDFRead, 'esdf': SDFRead, 'rdf': RDFRead, 'erdf': RDFRead, 'mrv': MRVRead}[fmt]
    src = io.BytesIO(data.encode()) if fmt == 'mrv' else io.StringIO(data)
    return list(R(src, calc_cis_trans=True) if calc_cis_trans else R(src))


def fields(m):
    return ({n: (a.atomic_number, a.isotope, a.charge, a.is_radical) for n, a in m.atoms()},
            {(min(x, y), max(x, y)): b.order for x, y, b in m.bonds()}, list(m._atoms))


def h_record(V, fmt, falsify=False):
    import chython
    from chython import MoleculeContainer
    from chython.containers.bonds import Bond
    import chython.periodictable as pt
    el = V.choice('el', ['C', 'N', 'Fe', 'Cl'])
    cls = getattr(pt, el)
    isos = sorted(object.__new__(cls).isotopes_distribution)
    iso = V.choice('iso', [None, isos[0], isos[-1]])
    charge = int(V.int('charge', -4, 4))
    rad = bool(V.bool('radical'))
    num = V.choice('number', [1, 999, 1000])
    order = V.choice('order', [1, 2, 3, 4, 8])
    pos = V.int('position', 0, 2)
    # the decorated atom may be first, middle or last in the record; large numbers and non-single bonds with it first only
    V.assume(s_or(pos == 0, s_and(num == 1, order == 1)))
    pos = int(pos)
    m = MoleculeContainer()
    others = [pt.C(), pt.O()]
    for k in range(3):
        m.add_atom(cls(iso, charge=charge, is_radical=rad) if k == pos else others.pop(0), num + k, _skip_calculation=True)
    m.add_bond(num, num + 1, Bond(order), _skip_calculation=True)
    m.add_bond(num + 1, num + 2, Bond(1), _skip_calculation=True)
    num_first, num = num, num + pos
    m.calc_labels()
    for n in m._atoms:
        m.calc_implicit(n)
    m.name = 'title'
    m.meta['key'] = 'value'
    info = {'format': fmt, 'element': el, 'isotope': iso, 'charge': charge, 'radical': rad, 'number': num_first, 'order': order,
            'position': pos}
    try:
        out, data = write_read(fmt, m)
    except ValueError as e:
        # the fixed-column V2000 writers refuse atom numbers that do not fit three columns: a loud refusal, not a loss
        V.prove(fmt in ('sdf', 'rdf') and max(m._atoms) > 999, 'a record is refused only for the documented V2000 limit',
                dict(info, error=str(e)))
        return
    V.prove(len(out) == 1 and isinstance(out[0], MoleculeContainer), 'one molecule record comes back', info)
    if len(out) != 1:
        return
    got, want = fields(out[0]), fields(m)
    if falsify:
        want[0][num] = (want[0][num][0], want[0][num][1], want[0][num][2] + 1, want[0][num][3])
    V.prove(got[2] == want[2], 'atom order and numbers preserved', dict(info, got=got[2]))
    V.prove(got[0] == want[0], 'elements, isotopes, charges and radical flags preserved', dict(info, got=str(got[0])))
    V.prove(got[1] == want[1], 'bond orders (incl. aromatic and coordinate) preserved', dict(info, got=str(got[1])))
    V.prove(out[0].name == 'title' and dict(out[0].meta).get('key') == 'value', 'title and metadata preserved', info)
    V.observe('len', len(data))


POOL = ['CCO', 'CC(=O)O', '[Na+]', 'c1ccccc1', '[Cl-]', 'O', 'N', 'C[N+](C)(C)C', 'CC=O']


def h_reaction(V, fmt, maxn=2):
    import chython
    from chython import ReactionContainer
    counts = [int(V.int(k, 0, maxn)) for k in ('reactants', 'reagents', 'products')]
    V.assume(sum(counts) > 0)
    it = iter(POOL)
    roles = [[chython.smiles(next(it)) for _ in range(k)] for k in counts]
    # one molecule with wedges (2-D coordinates) in a solver-chosen role
    srole = V.choice('stereo_role', [None, 0, 1, 2])
    if srole is not None:
        sm = chython.smiles('C[C@H](N)O')
        for n, (x, y) in STEREO['C[C@H](N)O'].items():
            sm.atom(n).x, sm.atom(n).y = x, y
        roles[srole].append(sm)
    # distinct atom numbers across the reaction (mapping numbers)
    k = 1
    for ms in roles:
        for mol in ms:
            mol.remap({n: 1000 + i for i, n in enumerate(list(mol))})
            mol.remap({n: k + i for i, n in enumerate(list(mol))})
            k += len(mol)
    r = ReactionContainer(roles[0], roles[2], roles[1])
    r.name = 'rxn'
    r.meta['k'] = 'v'
    out, data = write_read(fmt, r)
    info = {'format': fmt, 'roles': counts, 'stereo_role': srole}
    V.prove(len(out) == 1 and isinstance(out[0], ReactionContainer), 'one reaction record comes back', info)
    if len(out) != 1 or not isinstance(out[0], ReactionContainer):
        return
    b = out[0]
    for name in ('reactants', 'reagents', 'products'):
        V.prove([str(x) for x in getattr(b, name)] == [str(x) for x in getattr(r, name)], f'{name} preserved in order',
                dict(info, got=[str(x) for x in getattr(b, name)]))
        V.prove([list(x._atoms) for x in getattr(b, name)] == [list(x._atoms) for x in getattr(r, name)],
                'mapping numbers preserved', info)
    V.prove(dict(b.meta).get('k') == 'v', 'metadata preserved', info)
    V.observe('len', len(data))


STEREO = {
    'C[C@H](N)O': {1: (-1.3, 0.0), 2: (0.0, 0.0), 3: (0.65, 1.1), 4: (0.65, -1.1)},
    'F/C=C/Cl': {1: (-1.95, 0.75), 2: (-0.65, 0.0), 3: (0.65, 0.75), 4: (1.95, 0.0)},
    'C[C@H](O)/C=C/F': {1: (-1.3, 0.75), 2: (0.0, 0.0), 3: (0.0, -1.5), 4: (1.3, 0.75), 5: (2.6, 0.0), 6: (3.9, 0.75)},
}


def zigzag(n):
    return {i + 1: (0.7145 * i, 0.4125 * (i % 2)) for i in range(n)}


# pentane-2,3,4-triols: C3 is a stereocentre only through the configuration of C2 and C4 (meso forms), is none in the chiral
# form, and is left undefined in the last one. Atoms: C1 C2 O3 C4 O5 C6 C7 O8
_T = {1: (0.0, 0.0), 2: (0.7145, 0.4125), 4: (1.4289, 0.0), 6: (2.1434, 0.4125), 7: (2.8579, 0.0), 3: (0.7145, 1.2375),
      5: (1.4289, -0.825), 8: (2.1434, 1.2375)}
STEREO.update({'C[C@H](O)[C@H](O)[C@@H](C)O': _T, 'C[C@H](O)[C@@H](O)[C@@H](C)O': _T, 'C[C@H](O)[C@H](O)[C@H](C)O': _T,
               'C[C@H](O)C(O)[C@@H](C)O': _T,
               # 1,3-disubstituted allene drawn along x
               'CC=[C@]=C(C)Cl': {1: (-0.65, 1.1), 2: (0.0, 0.0), 3: (1.3, 0.0), 4: (2.6, 0.0), 5: (3.25, 1.1), 6: (3.25, -1.1)}})


def h_stereo(V, fmt):
    import chython
    smi = V.choice('seed', sorted(STEREO))
    flip = bool(V.bool('mirror'))
    default_reader = bool(V.bool('default_reader_options'))
    if default_reader and ('/' in smi or chr(92) in smi):
        V.note('cis/trans from coordinates is an option of the reader: not asked with the defaults')
        return
    m = chython.smiles(smi)
    for n, (x, y) in STEREO[smi].items():
        m.atom(n).x = x
        m.atom(n).y = -y if flip else y
    if flip:      # the mirrored drawing with the same labels is the other enantiomer drawn consistently: flip the labels
        for _, a in m.atoms():
            if a.stereo is not None:
                a._stereo = not a._stereo
        m.flush_cache()
    out, data = write_read(fmt, m, calc_cis_trans=not default_reader)
    info = {'format': fmt, 'seed': smi, 'mirror': flip, 'default_reader': default_reader}
    V.prove(len(out) == 1, 'one record', info)
    if len(out) == 1:
        V.prove(str(out[0]) == str(m), 'tetrahedral and cis/trans configuration survive the file (2-D coordinates present)',
                dict(info, got=str(out[0]), want=str(m)))
        V.prove(out[0] == m and hash(out[0]) == hash(m), 'the molecule read back equals the one written', info)
    V.observe('len', len(data))


def h_bond_lines(V, fmt):
    """the bond block of a record may list the bonds in any order (files of other programs do): same molecule"""
    import chython
    smi = V.choice('seed', ['CC=[C@]=C(C)Cl', 'CC=[C@@]=C(C)Cl', 'C[C@H](N)O', 'C[C@H](O)/C=C/F'])
    m = chython.smiles(smi)
    key = smi.replace('@@', '@')
    for n, (x, y) in STEREO[key].items():
        m.atom(n).x, m.atom(n).y = x, y
    _, data = write_read(fmt, m)
    lines = data.split('\n')
    if fmt == 'sdf':
        ci = next(i for i, l in enumerate(lines) if l.rstrip().endswith('V2000'))
        na, nb = int(lines[ci][:3]), int(lines[ci][3:6])
        lo, hi = ci + 1 + na, ci + 1 + na + nb
    else:
        lo = next(i for i, l in enumerate(lines) if 'BEGIN BOND' in l) + 1
        hi = next(i for i, l in enumerate(lines) if 'END BOND' in l)
    nb = hi - lo
    perm = [V.int(f'p{i}', 0, nb - 1) for i in range(nb)]
    V.distinct(*perm)
    perm = [int(x) for x in perm]
    block = [lines[lo + k] for k in perm]
    if fmt != 'sdf':      # V3000 bond lines carry their own index: renumber in the new order
        block = ['M  V30 ' + ' '.join([str(i + 1)] + l.split()[3:]) for i, l in enumerate(block)]
    text = '\n'.join(lines[:lo] + block + lines[hi:])
    out = read_text(fmt, text)
    info = {'format': fmt, 'seed': smi, 'order': perm}
    V.prove(len(out) == 1, 'one record', info)
    if len(out) == 1:
        V.prove(str(out[0]) == str(m), 'the order of the bond lines does not change the molecule or its configuration',
                dict(info, got=str(out[0]), want=str(m)))
    V.observe('perm', tuple(perm))


def h_multi(V, fmt, reactions=False):
    """files of 1..3 records: random access by index = sequential reading; a damaged record is skipped, the others stay"""
    import os
    import re
    import tempfile
    import chython
    from chython.files import SDFRead, SDFWrite, ESDFWrite, RDFRead, RDFWrite, ERDFWrite
    W, R = {'sdf': (SDFWrite, SDFRead), 'esdf': (ESDFWrite, SDFRead), 'rdf': (RDFWrite, RDFRead), 'erdf': (ERDFWrite, RDFRead)}[fmt]
    n = int(V.int('records', 1, 3))
    pool = ['CCO>>CC=O', 'CC(=O)O.CO>>CC(=O)OC', 'CN>>C[NH3+]'] if reactions else ['CCO', 'CC(=O)O', 'CN']
    objs = [chython.smiles(x) for x in pool[:n]]
    f = KeepS()
    w = W(f)
    for o in objs:
        w.write(o)
    w.close()
    data = getattr(f, 'data', None) or f.getvalue()
    want = [str(o) for o in objs]
    mode = V.choice('mode', ['index', 'damaged'])
    info = {'format': fmt, 'records': n, 'mode': mode, 'reactions': reactions}
    if mode == 'index':
        k = int(V.int('index', 0, n - 1))
        d = tempfile.mkdtemp(prefix='c11_', dir=os.environ.get('VERIF_TMP') or None)
        cache = None
        path = os.path.join(d, 'file.' + fmt)
        try:
            with open(path, 'w') as fh:
                fh.write(data)
            r = R(path, indexable=True)
            cache = r._cache_path          # the reader keeps its index in the system temp directory
            V.prove(len(r) == n, 'an indexed file knows how many records it has', dict(info, got=len(r)))
            V.prove(str(r[k]) == want[k], 'the k-th record by index is the k-th record read sequentially', dict(info, index=k))
            r.seek(k)
            V.prove(str(next(r)) == want[k] and r.tell() == k + 1, 'seek(k) then reading gives the k-th record',
                    dict(info, index=k))
            V.prove([str(x) for x in r[0:n]] == want, 'a slice gives the records in order', info)
            r.close()
        finally:
            for x in os.listdir(d):
                os.unlink(os.path.join(d, x))
            os.rmdir(d)
            if cache and os.path.isfile(cache):
                os.unlink(cache)
    else:
        bad = int(V.int('damaged', 0, n - 1))
        if fmt in ('sdf', 'esdf'):
            head, chunks = '', [c + '$$$$\n' for c in data.split('$$$$\n') if c]
        else:
            parts = re.split(r'(?m)^(?=\$[RM]FMT)', data)
            head, chunks = parts[0], parts[1:]
        V.prove(len(chunks) == n, 'one chunk per record', info)
        c = chunks[bad]
        if reactions and 'V2000' in c:
            # the reaction's own counts line (a broken component molecule is dropped with ignore=True, by design)
            ls = c.split('\n')
            i = next(j for j, l in enumerate(ls) if l.startswith('$RXN')) + 4
            ls[i] = '  x' + ls[i][3:]
            c = '\n'.join(ls)
        elif 'V2000' in c:
            c = re.sub(r'(?m)^(...)(...)(.*V2000)$', lambda m: '  x' + m.group(2) + m.group(3), c, count=1)
        else:
            c = c.replace('M  V30 COUNTS ', 'M  V30 COUNTS x', 1)
        chunks[bad] = c
        got = [str(x) for x in R(io.StringIO(head + ''.join(chunks)))]
        V.prove(got == want[:bad] + want[bad + 1:], 'a damaged record is skipped and the others are read', dict(info, damaged=bad,
                got=got))
    V.observe('n', n)


HARNESSES = {'multi': h_multi, 'record': h_record, 'reaction': h_reaction, 'stereo': h_stereo, 'bond_lines': h_bond_lines}


def finding_key(job, failure):
    info = failure.get('info') or {}
    return f"{job['harness']}:{failure['label']}:{job['params'].get('fmt')}:{info.get('order', '')}:{info.get('roles', '')}"


def jobs(tier):
    T = tier == 'thorough'
    J = []
    for fmt in ('sdf', 'esdf', 'rdf', 'erdf', 'mrv'):
        J.append({'harness': 'record', 'params': {'fmt': fmt}, 'budget_s': 900, 'validate_every': 200, 'max_failures': 20,
                  'weight': 500})
        J.append({'harness': 'stereo', 'params': {'fmt': fmt}, 'budget_s': 120, 'max_failures': 10})
    for fmt in ('sdf', 'esdf', 'rdf', 'erdf'):
        for rx in ((False, True) if 'rdf' in fmt else (False,)):
            J.append({'harness': 'multi', 'params': {'fmt': fmt, 'reactions': rx}, 'budget_s': 300, 'max_failures': 10})
    for fmt in ('sdf', 'esdf'):
        J.append({'harness': 'bond_lines', 'params': {'fmt': fmt}, 'budget_s': 600, 'validate_every': 100, 'max_failures': 10})
    for fmt in ('rdf', 'erdf', 'mrv'):
        J.append({'harness': 'reaction', 'params': {'fmt': fmt, 'maxn': 3 if T else 2}, 'budget_s': 600, 'validate_every': 10,
                  'max_failures': 20})
    J.append({'harness': 'record', 'params': {'fmt': 'sdf', 'falsify': True}, 'twin': True, 'budget_s': 120, 'max_failures': 1,
              'validate': False})
    return J
