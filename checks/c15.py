"""C15 Reactions: role-preserving I/O, order-free identity, exact condensed graph."""
import itertools

from vlib.minisym import s_and, s_or, s_not, s_iff, is_sym

PROPERTY = 'C15'

META = {
    'functions_encoded': [
        'chython/containers/molecule.py: MoleculeContainer.compose; chython/containers/reaction.py: ReactionContainer.compose, '
        '__format__, __str__, __eq__, __hash__', 'chython/containers/cgr.py: center_atoms, center_bonds',
        'chython/periodictable/base/dynamic.py: DynamicElement.from_atom, from_atoms, is_dynamic; bonds.py: DynamicBond',
        'chython/algorithms/smiles.py: CGRSmiles, dyn_order_str, dyn_charge_str, dyn_radical_str',
        'chython/files/daylight/smiles.py: smiles (reaction branch)',
    ],
    'bounds': {
        'quick': 'compose: 5 mapped shape pairs (<= 5 atoms per side, with cleaved and formed atoms) with every charge (-2..2) and '
                 'radical flag on both sides symbolic and every bond order solver-enumerated over {1,2,3}; reaction signature: '
                 'role counts 0..2 and every order of the molecules inside a role (solver-enumerated); CGR string under every '
                 'consistent renumbering of 3 small reactions',
        'thorough': 'role counts 0..3, 6 reactions',
    },
    'outside_claim': ['reactions larger than the listed ones', 'aromatic (order 4) dynamic bonds beyond the table check'],
    'stubs': [],
    'assumptions': [],
}

# (reactant atoms, reactant edges, product atoms, product edges): atom numbers shared = mapped
PAIRS = {
    'same3': ([1, 2, 3], [(1, 2), (2, 3)], [1, 2, 3], [(1, 2), (2, 3)]),
    'break': ([1, 2, 3], [(1, 2), (2, 3)], [1, 2, 3], [(1, 2)]),
    'form-ring': ([1, 2, 3], [(1, 2), (2, 3)], [1, 2, 3], [(1, 2), (2, 3), (1, 3)]),
    'leave': ([1, 2, 3, 4], [(1, 2), (2, 3), (3, 4)], [1, 2, 3], [(1, 2), (2, 3)]),
    'join': ([1, 2], [(1, 2)], [1, 2, 5, 6], [(1, 2), (2, 5), (5, 6)]),
}


def _mol(V, prefix, atoms, edges, sym=True):
    from chython import MoleculeContainer
    from chython.containers.bonds import Bond
    import chython.periodictable as pt
    m = MoleculeContainer()
    lab = {}
    for n in atoms:
        a = pt.C()
        if sym:
            a._charge = V.int(f'{prefix}c{n}', -1, 1)
            a._is_radical = V.bool(f'{prefix}r{n}')
        lab[n] = (a._charge, a._is_radical)
        m._atoms[n] = a
        m._bonds[n] = {}
    orders = {}
    for k, (i, j) in enumerate(edges):
        o = V.choice(f'{prefix}o{k}', [1, 2, 3]) if sym else 1
        b = Bond(o)
        orders[frozenset((i, j))] = o
        m._bonds[i][j] = m._bonds[j][i] = b
    m.calc_labels()
    for a in m._atoms.values():
        a._implicit_hydrogens = 0
    return m, lab, orders


def h_compose(V, pair, falsify=False):
    ra, re_, pa, pe = PAIRS[pair]
    r, rl, ro = _mol(V, 'r', ra, re_)
    p, pl, po = _mol(V, 'p', pa, pe)
    cgr = r ^ p
    common = set(ra) & set(pa)
    # independent "differs" set
    dyn_atoms = []
    for n in common:
        differs = s_or(rl[n][0] != pl[n][0], s_not(s_iff(rl[n][1], pl[n][1])))
        dyn_atoms.append((n, differs))
    dyn_bond_atoms = set()
    for e in set(ro) | set(po):
        a, b = tuple(e)
        o1 = ro.get(e) if (a in ra and b in ra) else None
        o2 = po.get(e) if (a in pa and b in pa) else None
        if e not in ro and a in common and b in common:
            o1 = None
        if e not in po and a in common and b in common:
            o2 = None
        # a bond to a leaving / arriving atom is broken / formed only when its other end is a common atom
        if a in common and b in common:
            if o1 != o2:
                dyn_bond_atoms.update(e)
        elif (a in common) != (b in common):
            dyn_bond_atoms.update(e)
    centre = set(cgr.center_atoms)
    for n, differs in dyn_atoms:
        want = s_or(differs, n in dyn_bond_atoms)
        if falsify and n == min(common):
            want = s_not(want)
        V.prove(s_iff(n in centre, want), 'an atom is in the reaction centre exactly where the sides differ', {'pair': pair,
                'atom': n})
    for n in (set(ra) | set(pa)) - common:
        V.prove((n in centre) == (n in dyn_bond_atoms), 'a leaving / arriving atom is in the centre exactly when its bond to a '
                'common atom is broken / formed', {'pair': pair, 'atom': n})
    # dynamic atoms and bonds carry both sides' values
    for n in common:
        a = cgr._atoms[n]
        V.prove(s_and(a.charge == rl[n][0], a.p_charge == pl[n][0], s_iff(a.is_radical, rl[n][1]),
                      s_iff(a.p_is_radical, pl[n][1])), 'dynamic atom carries the values of both sides', {'atom': n})
    for e in set(ro) | set(po):
        a, b = tuple(e)
        if a in common and b in common:
            bd = cgr._bonds[a][b]
            V.prove(bd.order == ro.get(e) and bd.p_order == po.get(e), 'dynamic bond carries the orders of both sides',
                    {'bond': sorted(e)})
    V.observe('centre', sorted(centre))


def h_identical(V, pair='same3'):
    """identical sides: no reaction centre, CGR string equals the plain structure"""
    ra, re_, _, _ = PAIRS[pair]
    r, rl, ro = _mol(V, 'r', ra, re_)
    p = r.copy()
    cgr = r ^ p
    V.prove(len(cgr.center_atoms) == 0, 'identical sides have no reaction centre')
    V.prove(not any(b.is_dynamic for *_, b in cgr.bonds()) , 'no dynamic bond')
    V.observe('n', len(cgr))


def h_tables(V):
    from chython.algorithms import smiles as S
    orders = [None, 1, 2, 3, 4, 8]
    o1 = V.choice('o1', orders)
    o2 = V.choice('o2', orders)
    V.assume(not (o1 is None and o2 is None))
    V.prove((o1, o2) in S.dyn_order_str, 'every pair of bond orders has a dynamic bond symbol', {'pair': [o1, o2]})
    inv = {}
    for k, v in S.dyn_order_str.items():
        inv.setdefault(v, []).append(k)
    V.prove(all(len(v) == 1 for v in inv.values()), 'dynamic bond symbols are injective')
    c1 = int(V.int('c1', -4, 4))
    c2 = int(V.int('c2', -4, 4))
    V.prove((c1, c2) in S.dyn_charge_str, 'every pair of charges has a symbol')
    inv = {}
    for k, v in S.dyn_charge_str.items():
        inv.setdefault(v, []).append(k)
    V.prove(all(len(v) == 1 for v in inv.values()), 'dynamic charge symbols are injective')
    V.prove((S.dyn_order_str[(o1, o2)] in ('', '=', '#', ':', '~')) == (o1 == o2), 'a plain bond symbol exactly for an unchanged '
            'bond', {'pair': [o1, o2]})
    V.observe('s', S.dyn_order_str[(o1, o2)])


POOL = ['CCO', 'CC(=O)O', '[Na+].[Cl-]', 'C[CH]C', 'O', 'c1ccccc1', 'C[N+](C)(C)C.[OH-]', 'N', 'CC=O']


def h_signature(V, maxn=2, falsify=False):
    import chython
    from chython import ReactionContainer
    counts = [int(V.int(k, 0, maxn)) for k in ('reactants', 'reagents', 'products')]
    V.assume(sum(counts) > 0)
    it = iter(POOL)
    roles = [[chython.smiles(next(it)) for _ in range(k)] for k in counts]
    base = ReactionContainer(roles[0], roles[2], roles[1])
    text = str(base)
    shuffled = []
    for i, ms in enumerate(roles):
        n = len(ms)
        if n > 1:
            p = [V.int(f'p{i}_{j}', 0, n - 1) for j in range(n)]
            V.distinct(*p)
            ms = [ms[int(x)] for x in p]
        shuffled.append([m.copy() for m in ms])
    other = ReactionContainer(shuffled[0], shuffled[2], shuffled[1])
    want = text if not falsify else text + 'C'
    V.prove(str(other) == want, 'reaction string does not depend on the order of molecules within a role', {'text': text})
    V.prove(other == base and hash(other) == hash(base), 'equal and hash-equal')
    back = chython.smiles(text)
    V.prove(isinstance(back, ReactionContainer), 'the string reads back as a reaction', {'text': text})
    for name in ('reactants', 'reagents', 'products'):
        V.prove(sorted(map(str, getattr(back, name))) == sorted(map(str, getattr(base, name))),
                f'{name} restored', {'text': text, 'got': [str(m) for m in getattr(back, name)]})
    V.prove(str(back) == text, 'reading the string back gives the same string', {'text': text, 'got': str(back)})
    V.observe('text', text)


RXNS = ['[OH:1][CH2:2][CH2:3][OH:4]>>[O-:1][CH2:2][CH2:3][OH:4]', '[CH3:1][OH:2]>>[CH3:1][O-:2]',
        '[CH3:1][CH:2]([CH3:3])[CH3:4]>>[CH3:1][C:2]([CH3:3])[CH3:4] |^1:5|', '[CH3:1][CH:2]=[O:3].[OH2:4]>>[CH3:1][CH:2]([OH:3])[OH:4]',
        '[CH3:1][Cl:2].[OH-:3]>>[CH3:1][OH:3].[Cl-:2]', '[CH2:1]=[CH2:2].[CH2:3]=[CH2:4]>>[CH2:1]1[CH2:2][CH2:4][CH2:3]1',
        '[CH3:1][CH2:2][CH2:3]>>[CH3:1][CH:2]=[CH2:3] |^1:2|', '[CH3:1][C:2]#[N:3]>>[CH3:1][N+:3]#[C-:2]']


def h_cgr_renumber(V, rxn):
    import chython
    r = chython.smiles(rxn)
    base = str(~r)
    nums = sorted({n for m in r.molecules() for n in m})
    p = [V.int(f'p{i}', 0, len(nums) - 1) for i in range(len(nums))]
    V.distinct(*p)
    mapping = {n: 100 + 5 * int(p[i]) for i, n in enumerate(nums)}
    r2 = r.copy()
    for m in r2.molecules():
        m.remap({n: mapping[n] for n in m})
    r2.flush_cache()
    V.prove(str(~r2) == base, 'CGR string does not depend on a consistent renumbering of both sides', {'rxn': rxn,
            'mapping': mapping, 'got': str(~r2), 'want': base})
    V.prove(sorted(mapping[n] for n in (~r).center_atoms) == sorted((~r2).center_atoms), 'reaction centre is renumbered with it')
    V.observe('cgr', base)


HARNESSES = {'compose': h_compose, 'identical': h_identical, 'tables': h_tables, 'signature': h_signature,
             'cgr_renumber': h_cgr_renumber}


def jobs(tier):
    T = tier == 'thorough'
    J = []
    for pr in PAIRS:
        J.append({'harness': 'compose', 'params': {'pair': pr}, 'budget_s': 240, 'validate_every': 100, 'max_failures': 10,
                  'weight': 500})
    J.append({'harness': 'compose', 'params': {'pair': 'same3', 'falsify': True}, 'twin': True, 'budget_s': 120,
              'max_failures': 1, 'validate': False})
    J.append({'harness': 'identical', 'budget_s': 300, 'validate_every': 20})
    J.append({'harness': 'tables', 'budget_s': 300, 'validate_every': 100})
    J.append({'harness': 'signature', 'params': {'maxn': 3 if T else 2}, 'budget_s': 900, 'validate_every': 20,
              'max_failures': 20})
    J.append({'harness': 'signature', 'params': {'maxn': 1, 'falsify': True}, 'twin': True, 'budget_s': 120, 'max_failures': 1})
    for rx in (RXNS if T else RXNS[:4]):
        J.append({'harness': 'cgr_renumber', 'params': {'rxn': rx}, 'budget_s': 600, 'validate_every': 50, 'max_failures': 10})
    return J
