"""C16 Template application edits exactly what the template names."""
import ast

from vlib.spell import respell

PROPERTY = 'C16'

META = {
    'functions_encoded': [
        'chython/reactor/transformer.py: Transformer.__call__; chython/reactor/base.py: BaseReactor._patcher, _get_deleted',
        'chython/reactor/reactor.py: Reactor.__call__ (single- and two-reactant templates)',
        'chython/algorithms/isomorphism.py (match enumeration), chython/files/daylight/smarts.py (templates)',
    ],
    'bounds': {
        'quick': 'the template / input / result vectors harvested (by ast, on every run) from the repository\'s own '
                 'test_transformer.py plus 20 synthetic templates (halide -> alcohol, deletion with detached fragments, masked '
                 'atoms, new atoms, charge change, identity, untouched ring / chain stereo), each applied to every random-order spelling of the input '
                 '(random() symbolic); two two-reactant Reactor templates on three molecules in every order with colliding / '
                 'disjoint numberings (solver-chosen)',
        'thorough': 'as quick',
    },
    'outside_claim': ['the built-in reaction and deprotection collections', 'exhaustive / one-shot modes of Reactor beyond the '
                      'listed templates'],
    'stubs': ['chython.algorithms.smiles.random -> fresh z3 Real; min -> n-way argmin',
              'the global masked-atom counter of the SMARTS reader is reset on every path'],
    'assumptions': [],
}

_V = None


def vectors():
    global _V
    if _V is None:
        src = open('/repo/chython/reactor/test/test_transformer.py').read()
        tree = ast.parse(src)
        data = next(n.value for n in tree.body if isinstance(n, ast.Assign) and getattr(n.targets[0], 'id', '') == 'data')
        _V = [tuple(ast.literal_eval(e)) for e in data.elts]
    return _V


SYNTH = [
    # pattern, replacement, input, expected products (canonical, 'h' style) or None = only the frame conditions
    ('[C:1][Cl:2]', '[A:1][O;M]', 'ClCCCl', ['OCCCl']),
    ('[C:1][Cl:2]', '[A:1]', 'CC(Cl)CC', ['CCCC']),
    ('[C:1]-[O:2]-[C:3]', '[A:1]', 'CCOCC', None),                      # deleted atom drags its detached fragment
    ('[C:1]-[O:2]-[C;M:3]', '[A:1]', 'CCOCC', None),                    # masked atom keeps its fragment
    ('[N;D1:1]', '[N+:1]', 'NCCN', ['[NH3+]CCN']),
    ('[C:1]=[O:2]', '[A:1]-[A:2]', 'CC(=O)C', ['CC(O)C']),
    ('[C:1][O;D1:2]', '[A:1][A:2]', 'CCO', ['CCO']),                    # identity
    ('[C;D1:1]', '[A:1][F;M]', 'CC', ['CCF']),
    ('[O;D1:1]', '[A:1][C;M](=[O;M])[C;M]', 'CO', ['COC(C)=O']),
    # stereo the template does not name must survive (ring centres: the neighbour order of a ring-closing atom is not
    # ascending, so rebuilding adjacency in another order silently inverts a copied sign)
    ('[C:1][Br:2]', '[A:1][O;M]', 'BrCCO[C@H]1CCC[C@@H]1C', ['OCCO[C@H]1CCC[C@@H]1C']),
    ('[C:1][Cl:2]', '[A:1]', 'ClC[C@H](N)O', ['C[C@H](N)O']),
    ('[C:1][Cl:2]', '[A:1]', 'ClCC/C=C/F', ['CC/C=C/F']),
    ('[N:1]-[S;D4:2](=[O:3])(=[O:4])-[C;M]', '[A:1]', 'CNS(=O)(=O)c1ccccc1', None),   # masked atom absent from the replacement
    # the deleted atom has two unmatched neighbours in one surviving fragment (1-azabicyclo[1.1.1]pentane loses its N)
    ('[C:1][N:2]', '[A:1]', 'C1N2CC1C2', None),
    ('[C:1][O:2]', '[A:1]', 'C1OC2CC1C2', None),
    # cis/trans label requested by the replacement, whatever the input carries
    ('[F:3][C:1]=[C:2][Cl:4]', '[A:3]/[A:1]=[A:2]/[A:4]', 'FC=CCl', ['F/C=C/Cl']),
    ('[F:3][C:1]=[C:2][Cl:4]', '[A:3]/[A:1]=[A:2]/[A:4]', 'F/C=C\\Cl', ['F/C=C/Cl']),
    ('[F:3][C:1]=[C:2][Cl:4]', '[A:3]/[A:1]=[A:2]\\[A:4]', 'F/C=C/Cl', ['F/C=C\\Cl']),
    ('[F:3][C:1]=[C:2][Cl:4]', '[A:3]/[A:1]=[A:2]\\[A:4]', 'FC=CCl', ['F/C=C\\Cl']),
    ('[F:3][C:1]=[C:2][Cl:4]', '[A:3][A:1]=[A:2][A:4]', 'F/C=C/Cl', ['F/C=C/Cl']),      # no label asked: the input's stays
]


def reset_masked():
    from chython.files.daylight import smarts as sm
    from itertools import count
    sm.global_free_masked = count(10 ** 9 + 1)


def expected_deleted(mol, mapping, to_delete):
    """my reading: matched atoms absent from the replacement go, together with every fragment that hangs on them and
    contains no surviving matched atom"""
    dele = {mapping[x] for x in to_delete}
    remain = set(mapping.values()) - dele
    rest = set(mol._atoms) - dele
    seen, out = set(), set(dele)
    for d in dele:
        for start in mol._bonds[d]:
            if start in dele or start in seen:
                continue
            comp, st = set(), [start]
            while st:
                x = st.pop()
                if x in comp or x in dele:
                    continue
                comp.add(x)
                st.extend(mol._bonds[x])
            seen |= comp
            if not (comp & remain):
                out |= comp
    return out


def h_template(V, k, synth=False, falsify=False):
    import chython
    from chython import Transformer
    reset_masked()
    if synth:
        pat, rep, src, want = SYNTH[k]
    else:
        pat, rep, src, want = vectors()[k]
        want = [want] if isinstance(want, str) else list(want)
    t = Transformer(chython.smarts(pat), chython.smarts(rep))
    m0 = chython.smiles(src)
    text, order = respell(V, m0.copy())
    mol = chython.smiles(text)
    info = {'pattern': pat, 'replacement': rep, 'text': text}
    before = {n: (a.atomic_number, a.isotope, a.charge, a.is_radical) for n, a in mol.atoms()}
    nbrs = {n: sorted(mol._bonds[n]) for n in mol._atoms}
    matches = list(t._pattern.get_mapping(mol, automorphism_filter=True))
    products = list(t(mol))
    V.prove(len(products) == len(matches), 'one product per distinct match', dict(info, got=len(products), want=len(matches)))
    V.prove({n: (a.atomic_number, a.isotope, a.charge, a.is_radical) for n, a in mol.atoms()} == before,
            'the input molecule is not modified', info)
    got = {format(p, 'h') for p in products}
    if want is not None:
        exp = {format(chython.smiles(x), 'h') for x in want}
        if falsify:
            exp = {next(iter(exp)) + 'C'}
        V.prove(got == exp, 'products are the documented ones, whatever the input order', dict(info, got=sorted(got),
                want=sorted(exp)))
    ref = {format(p, 'h') for p in t(m0)}
    V.prove(got == ref, 'product set does not depend on reactant numbering', dict(info, got=sorted(got), want=sorted(ref)))
    named = set(t._pattern._atoms)
    for mp, p in zip(matches, products):
        V.prove(len(set(p._atoms)) == len(p), 'product atom numbers are unique', info)
        V.prove(p.check_valence() == [], 'product is valence-valid', dict(info, product=str(p)))
        gone = expected_deleted(mol, mp, t._to_delete)
        matched = set(mp.values())
        V.prove(not (gone & set(p._atoms)), 'matched atoms absent from the replacement are removed with their detached fragments',
                dict(info, expected_gone=sorted(gone), left=sorted(gone & set(p._atoms))))
        for n in set(mol._atoms) - matched - gone:
            a = p._atoms.get(n)
            V.prove(a is not None and (a.atomic_number, a.isotope, a.charge, a.is_radical) == before[n],
                    'atoms the template does not name keep number and attributes', dict(info, atom=n))
            if a is not None:
                keep = [x for x in nbrs[n] if x not in gone]
                V.prove(sorted(x for x in p._bonds[n] if x in mol._atoms) == keep, 'and their neighbours', dict(info, atom=n))
                if mol._atoms[n].stereo is not None and len(keep) == len(nbrs[n]) and not (set(keep) & matched) and \
                        n in mol.stereogenic_tetrahedrons and n in p.stereogenic_tetrahedrons:
                    V.prove(a.stereo is not None and p._translate_tetrahedron_sign(n, keep) ==
                            mol._translate_tetrahedron_sign(n, keep), 'an untouched stereocentre keeps its configuration',
                            dict(info, atom=n))
        for qn, ra in t._replacement.atoms():
            if qn in mp:
                a = p._atoms[mp[qn]]
                V.prove(a.charge == ra.charge and a.is_radical == ra.is_radical, 'named atoms get the requested charge and '
                        'radical state', dict(info, atom=mp[qn]))
    V.observe('text', text)


REACTOR = [
    # (reactant patterns, product patterns, molecules)
    (('[C:1](=[O:2])[O;D1:3]', '[N;D1:4][C:5]'), ('[A:1](=[A:2])[A:4][A:5]',), ('CC(=O)O', 'CN', 'NCC')),
    (('[C:1][Cl:2]', '[O;D1:3][C:4]'), ('[A:1][A:3][A:4]',), ('CCl', 'OCC', 'OC(C)C')),
]


def h_reactor(V, k, falsify=False):
    """two-reactant template on three molecules given in a solver-chosen order with solver-chosen (colliding or disjoint)
    numbering: the product set is that of the hand-disjoint reference"""
    import chython
    from chython import Reactor
    from chython.reactor.reactor import fix_mapping_overlap
    reset_masked()
    pats, prods, mols = REACTOR[k]
    reactor = Reactor([chython.smarts(x) for x in pats], [chython.smarts(x) for x in prods])

    def product_set(structures):
        out = set()
        for r in reactor(*structures):
            ps = []
            for p in r.products:
                V.prove(len(set(p._atoms)) == len(p), 'product atom numbers are unique')
                V.prove(all(x in p._atoms for n in p._atoms for x in p._bonds[n]), 'no bond points to a missing atom')
                ps.append(format(p, 'h'))
            out.add(tuple(sorted(ps)))
        return out
    ref_mols = [chython.smiles(x) for x in mols]
    for i, m in enumerate(ref_mols):
        m.remap({n: 100 * (i + 1) + n for n in list(m._atoms)})
    reference = product_set(ref_mols)
    if falsify:
        reference = set(list(reference)[1:])
    perm = [V.int(f'pos{i}', 0, 2) for i in range(3)]
    V.distinct(*perm)
    perm = [int(x) for x in perm]
    starts = [V.choice(f'start{i}', [0, 10, 20]) for i in range(3)]
    given = []
    for i in perm:
        m = chython.smiles(mols[i])
        if starts[i]:
            m.remap({n: n + 1000 for n in list(m._atoms)})
            m.remap({n: n - 1000 + starts[i] for n in list(m._atoms)})
        given.append(m)
    info = {'template': pats, 'order': perm, 'starts': starts}
    fixed = fix_mapping_overlap([m.copy() for m in given])
    nums = [n for m in fixed for n in m._atoms]
    V.prove(len(nums) == len(set(nums)), 'colliding reactant numbers are made disjoint', dict(info, got=[list(m._atoms) for m in fixed]))
    got = product_set(given)
    V.prove(got == reference, 'product set does not depend on reactant order or numbering', dict(info, got=sorted(got),
            want=sorted(reference)))
    V.observe('n', len(got))


HARNESSES = {'template': h_template, 'reactor': h_reactor}


def finding_key(job, failure):
    p = job['params']
    kind = 'reactor' if job['harness'] == 'reactor' else 'synth' if p.get('synth') else 'harvested'
    return f"{job['harness']}:{failure['label']}:{kind}:{p.get('k')}"


def jobs(tier):
    J = []
    for k in range(len(vectors())):
        J.append({'harness': 'template', 'params': {'k': k}, 'budget_s': 600, 'validate_every': 25, 'max_failures': 3})
    for k in range(len(SYNTH)):
        J.append({'harness': 'template', 'params': {'k': k, 'synth': True}, 'budget_s': 600, 'validate_every': 25,
                  'max_failures': 3})
    J.append({'harness': 'template', 'params': {'k': 0, 'synth': True, 'falsify': True}, 'twin': True, 'budget_s': 120,
              'max_failures': 1})
    for k in range(len(REACTOR)):
        J.append({'harness': 'reactor', 'params': {'k': k}, 'budget_s': 600, 'validate_every': 25, 'max_failures': 5})
    J.append({'harness': 'reactor', 'params': {'k': 0, 'falsify': True}, 'twin': True, 'budget_s': 120, 'max_failures': 1})
    return J
