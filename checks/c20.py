"""C20 RDKit bridge preserves structure and configuration in both directions."""
from vlib.spell import respell
from checks.c01 import mol_of

PROPERTY = 'C20'

META = {
    'functions_encoded': ['chython/utils/rdkit.py: to_rdkit_molecule, from_rdkit_molecule (RDKit itself is called concretely)',
                          'chython/algorithms/stereo.py: _translate_tetrahedron_sign, _translate_cis_trans_sign'],
    'bounds': {'quick': 'every random-order spelling (random() symbolic) of 23 seeds both toolkits accept (carbon '
                        'stereocentres with and without hydrogens written as atoms, coordinate bonds to a metal, stereo double bonds, charges, isotopes, radicals, aromatic and Kekule form)',
               'thorough': '30 seeds'},
    'outside_claim': ['RDKit is C++ behind FFI: only the order in which atoms and neighbours reach the bridge is explored by the '
                      'solver; allenes, coordinates, atom maps are checked on the seeds only'],
    'stubs': ['chython.algorithms.smiles.random -> fresh z3 Real; min -> n-way argmin'],
    'assumptions': ['RDKit canonical SMILES as the judge on the RDKit side'],
}

SEEDS_Q = ['CCO', 'CC(=O)O', 'C[N+](C)(C)C', 'CC[O-]', '[13CH4]', 'C[CH]C', 'c1ccccc1', 'c1ccncc1', 'c1cc[nH]c1', 'C1CC1C',
           'C[C@H](N)O', 'F[C@](Cl)(Br)I', 'F/C=C/Cl', 'C[C@H](O)/C=C/F', 'C[C@H]1CCO1', 'C[C@]12CCC[C@H]1C2', 'CC(=O)[O-].[Na+]',
           'F/C(Cl)=C(/Br)I', '[H][C@](F)(Cl)Br', 'C[C@]([H])(N)C(=O)O', 'C[C@]([2H])(O)F', '[Pd]~P(C)(C)C',
           'Cl[Pt](Cl)(~[NH3])~[NH3]']
SEEDS_T = SEEDS_Q + ['c1ccc2ccccc2c1', 'OC(=O)[C@@H](N)CS', 'C/C=C/C=C\\C', 'C[C@H]1CC[C@@H](O)O1', 'N[C@@]1(C)CCCO1', 'CS(=O)(=O)C',
                     'C[C@H](O)[C@H](F)[C@@H](C)O', 'CC1C[C@@]12CCO2', 'C#N', 'C[Si](C)(C)C', 'B(O)O', 'O=C=O']


def h_bridge(V, smi, kekule=False, falsify=False):
    import chython
    from chython.utils import to_rdkit_molecule, from_rdkit_molecule
    from rdkit import Chem
    src = mol_of(smi).copy()
    if kekule:
        src.kekule()
    text, order = respell(V, src.copy())
    m = chython.smiles(text)
    if any(b.order == 4 for *_, b in m.bonds()):
        m.kekule()
        if not kekule:
            m.thiele()
    info = {'text': text, 'seed': smi}
    rd = to_rdkit_molecule(m)
    ref_rd = None
    if ' ' not in text and '~' not in text:      # RDKit writes coordinate bonds with a direction: no common spelling
        ps = Chem.SmilesParserParams()
        ps.removeHs = False                      # hydrogens written as atoms stay atoms on both sides
        ref_rd = Chem.MolFromSmiles(text, ps)
    METALS = {46, 78, 26, 29, 30}
    for i, (n, a) in enumerate(m.atoms()):
        V.prove(rd.GetAtomWithIdx(i).GetTotalNumHs() == (a.implicit_hydrogens or 0), 'RDKit atom has the hydrogen count of '
                'the chython atom', dict(info, atom=n, got=rd.GetAtomWithIdx(i).GetTotalNumHs(), want=a.implicit_hydrogens))
    for b in rd.GetBonds():
        if b.GetBondType() == Chem.BondType.DATIVE:
            V.prove(b.GetEndAtom().GetAtomicNum() in METALS and b.GetBeginAtom().GetAtomicNum() not in METALS,
                    'a coordinate bond becomes an RDKit dative bond from the donor to the metal', info)
    V.prove(sum(b.GetBondType() == Chem.BondType.DATIVE for b in rd.GetBonds()) == sum(b.order == 8 for *_, b in m.bonds()),
            'every coordinate bond becomes a dative bond', info)
    maps = [a.GetAtomMapNum() for a in rd.GetAtoms()]
    V.prove(maps == list(m._atoms), 'atom numbers travel as RDKit atom maps', dict(info, got=maps))
    plain = Chem.Mol(rd)
    for a in plain.GetAtoms():
        a.SetAtomMapNum(0)
    got = Chem.MolToSmiles(plain)
    if ref_rd is not None:
        V.prove(got == Chem.MolToSmiles(ref_rd), 'RDKit sees the same molecule and configuration as in the spelling',
                dict(info, got=got, want=Chem.MolToSmiles(ref_rd)))
    back = from_rdkit_molecule(rd)
    if any(b.order == 4 for *_, b in back.bonds()) or any(b.order == 4 for *_, b in m.bonds()):
        back.kekule(); back.thiele()
        m2 = m.copy(); m2.kekule(); m2.thiele()
    else:
        m2 = m
    V.prove(str(back) == (str(m2) if not falsify else str(m2) + 'C'), 'to_rdkit then from_rdkit is the identity', dict(info, got=str(back), want=str(m2)))
    for n, a in m.atoms():
        b = back._atoms.get(n)
        V.prove(b is not None and (b.atomic_number, b.isotope, b.charge, b.is_radical) ==
                (a.atomic_number, a.isotope, a.charge, a.is_radical), 'atom numbers, elements, isotopes, charges and radicals '
                'preserved', info)
    if ref_rd is not None:
        c = from_rdkit_molecule(ref_rd)
        if any(b.order == 4 for *_, b in c.bonds()):
            c.kekule(); c.thiele()
        V.prove(str(c) == str(m2), 'from_rdkit of the RDKit-parsed spelling is the chython-parsed spelling',
                dict(info, got=str(c), want=str(m2)))
    V.observe('text', text)


HARNESSES = {'bridge': h_bridge}


def finding_key(job, failure):
    return f"{job['harness']}:{failure['label']}:{job['params'].get('smi')}"


def jobs(tier):
    T = tier == 'thorough'
    J = []
    for s in (SEEDS_T if T else SEEDS_Q):
        J.append({'harness': 'bridge', 'params': {'smi': s}, 'budget_s': 600, 'validate_every': 25, 'max_failures': 3})
        if 'c' in s:
            J.append({'harness': 'bridge', 'params': {'smi': s, 'kekule': True}, 'budget_s': 600, 'validate_every': 25,
                      'max_failures': 3})
    J.append({'harness': 'bridge', 'params': {'smi': 'CCO', 'falsify': True}, 'twin': True, 'budget_s': 60, 'max_failures': 1})
    return J
