"""C09 Accelerated (compiled) matcher and reference matcher return the same mappings."""
import itertools

import z3

from vlib import cysym
from vlib.minisym import SymBool, SymBV, s_and, s_or, s_not, s_iff, implies, is_sym, WIDE
from vlib.symchem import sym_atom, sym_query_attrs
from vlib.matcherbits import patched_structs, compiled_structure_fields, compiled_query_fields

PROPERTY = 'C09'

META = {
    'functions_encoded': [
        'chython/algorithms/_isomorphism.pyx: get_mapping (interpreted from the current source by vlib/cysym.py, packed '
        'structs read back from the byte buffers)',
        'chython/algorithms/isomorphism.py: MoleculeIsomorphism._cython_compiled_structure, '
        'QueryIsomorphism._cython_compiled_query, QueryIsomorphism.get_mapping (both settings of _cython), '
        'Isomorphism._get_mapping, _get_mapping, _compile_query',
        'chython/periodictable/base/query.py: the four query-atom __eq__; chython/containers/bonds.py: QueryBond.__eq__',
    ],
    'bounds': {
        'quick': 'atom level: one query atom (element / any / list / any-metal; constraint lists of length 0 or 2, symbolic '
                 'members) against one molecule atom with every attribute symbolic (tabulated isotopes, charge -4..4, '
                 'radical, H 0..4, neighbours and heteroatoms 0..14, hybridisation 1..4, ring sizes over {3,5,6,65,66,70}); '
                 'all 118 elements for the element bit; bond level: symbolic order lists and ring marks; search level: '
                 'patterns <= 3 atoms in targets <= 4 atoms with every charge and bond order symbolic',
        'thorough': 'lists of length 0..3; search level pattern <= 4 / target <= 5 incl. two-component patterns',
    },
    'outside_claim': ['documented merge of Lv/Ts/Og into one bit (checked to be the only element collision)',
                      'ring sizes > 65 (documented as unsupported by the bit layout): excluded from the equivalence',
                      'implicit hydrogens > 4 on a molecule atom (outside the 5-bit field of the layout)',
                      'stereo filtering happens after either matcher in shared Python code (C08)'],
    'stubs': ['struct.Struct.pack / BytesIO in chython.algorithms.isomorphism replaced by a field recorder whose '
              'records are serialised little-endian into the byte buffers the interpreted matcher reads'],
    'assumptions': ['Cython semantics as implemented by vlib/cysym.py'],
}


def _pt():
    import chython.periodictable as pt
    return pt


def _mk_mol(atoms, bonds):
    """MoleculeContainer around prepared atom objects {n: atom} and {(n, m): Bond}"""
    from chython import MoleculeContainer
    m = MoleculeContainer()
    for n, a in atoms.items():
        m._atoms[n] = a
        m._bonds[n] = {}
    for (i, j), b in bonds.items():
        m._bonds[i][j] = b
        m._bonds[j][i] = b
    return m


def _mk_query(atoms, bonds):
    from chython import QueryContainer
    q = QueryContainer('')
    for n, a in atoms.items():
        q._atoms[n] = a
        q._bonds[n] = {}
    for (i, j), b in bonds.items():
        q._bonds[i][j] = b
        q._bonds[j][i] = b
    return q


def _both(q, m, **kw):
    """mapping sets of the two matcher configurations"""
    cysym.install()
    with patched_structs():
        fast = list(q.get_mapping(m, _cython=True, **kw))
    for o in (q, m):
        o.__dict__.pop('_cython_compiled_query', None)
        o.__dict__.pop('_cython_compiled_structure', None)
    slow = list(q.get_mapping(m, _cython=False, **kw))
    key = lambda ms: sorted(tuple(sorted(x.items())) for x in ms)
    return key(fast), key(slow)


def _iso_domain(V, a_el):
    """tabulated isotopes of the element (the matcher layout is claimed for those)"""
    pt = _pt()
    return set(object.__new__(getattr(pt, a_el)).isotopes_distribution)


def h_atom_level(V, kind, q_el='C', a_el='C', lens=(0, 2), rings=False, falsify=False):
    pt = _pt()
    acls = getattr(pt, a_el)
    ring_choices = (3, 6, 65, 66) if rings else ()
    a, aa = sym_atom(V, acls, 'a', intf=V.wint, ring_choices=ring_choices, with_none_h=True, h_max=4)
    V.assume(s_or(*[aa['iso'] == k for k in _iso_domain(V, a_el)]))
    if rings:      # the ring word is independent of the attribute word: keep the latter's optional parts fixed here
        V.assume(s_and(s_not(aa['has_iso']), s_not(aa['h_none']), s_not(aa['rad'])))
    kw = dict(lens=(0,) if rings else tuple(lens), ring_mode=None if rings else 'any', intf=V.wint,
              ring_sel=[(3,), (6,), (65,), (3, 6), (6, 65), (4,)])
    if kind == 'element':
        q = object.__new__(getattr(pt, 'Query' + q_el))
        qa = sym_query_attrs(V, q, 'q', **kw)
        iso = V.wint('q_iso', 0, 400)
        q_iso_none = V.bool('q_iso_none')
        q._isotope = None if q_iso_none else iso
        # a query isotope is only representable when it is a tabulated isotope of the element (or 0 = unspecified)
        V.assume(s_or(iso == 0, *[iso == k for k in _iso_domain(V, q_el)]))
    elif kind == 'any':
        q = object.__new__(pt.AnyElement)
        qa = sym_query_attrs(V, q, 'q', **kw)
    elif kind == 'list':
        q = pt.ListElement(q_el.split(','))
        qa = sym_query_attrs(V, q, 'q', **kw)
    else:
        q = object.__new__(pt.AnyMetal)
        qa = sym_query_attrs(V, q, 'q', extended=False, **kw)
    if rings and kind != 'metal':
        # ring sizes above 65 are documented as unsupported by the bit layout: excluded on both sides
        V.assume(not any(r > 65 for r in a._ring_sizes))
    query = _mk_query({1: q}, {})
    mol = _mk_mol({7: a}, {})
    fast, slow = _both(query, mol)
    if falsify:
        slow = [] if slow else [((1, 7),)]
    unknown_h = a._implicit_hydrogens is None and kind != 'metal' and len(q._implicit_hydrogens) > 0
    if unknown_h:
        # recorded finding: the bit layout has no state for "unknown" and encodes it as zero hydrogens.  Anything
        # other than exactly that behaviour is a different violation.
        a._implicit_hydrogens = 0
        mol.flush_cache()
        _, slow0 = _both(query, mol)
        a._implicit_hydrogens = None
        V.prove(fast == slow0, 'an unknown hydrogen count is encoded as zero hydrogens and nothing else differs',
                {'kind': kind, 'query': q_el, 'atom': a_el, 'fast': fast, 'slow_with_h0': slow0})
        V.prove(fast == slow, 'compiled and reference matcher agree when the atom has an unknown hydrogen count and the '
                'query constrains hydrogens', {'kind': kind, 'query': q_el, 'atom': a_el, 'fast': fast, 'slow': slow})
    else:
        V.prove(fast == slow, 'compiled and reference matcher agree on one atom', {'kind': kind, 'query': q_el,
                'atom': a_el, 'fast': fast, 'slow': slow})
    V.observe('n', len(fast))


def h_element_bits(V, lo=1, hi=118):
    """every element against every element: the element bit of the compiled layout separates exactly what the
    reference comparison separates, except the documented Lv/Ts/Og merge"""
    pt = _pt()
    from vlib.refsmiles import ELEMENTS
    zq = V.int('zq', lo, hi)
    za = V.int('za', 1, 118)
    zq, za = int(zq), int(za)
    q = getattr(pt, 'Query' + ELEMENTS[zq - 1])()
    a = getattr(pt, ELEMENTS[za - 1])()
    a._neighbors = a._heteroatoms = 0
    a._hybridization = 1
    a._ring_sizes = set()
    a._in_ring = False
    a._implicit_hydrogens = 0
    a._explicit_hydrogens = 0
    fast, slow = _both(_mk_query({1: q}, {}), _mk_mol({1: a}, {}))
    merged = {116, 117, 118}
    if zq in merged and za in merged:
        V.prove(bool(fast), 'Lv/Ts/Og share one bit (documented)', {'zq': zq, 'za': za})
    else:
        V.prove(fast == slow, 'element bit agrees with the reference comparison', {'zq': zq, 'za': za})
    V.observe('m', len(fast))


def h_metal_bits(V):
    """any-metal against every element: the compiled mask admits exactly the elements the reference comparison admits
    (Lv/Ts/Og share one bit: documented)"""
    pt = _pt()
    from vlib.refsmiles import ELEMENTS
    za = int(V.int('za', 1, 118))
    a = getattr(pt, ELEMENTS[za - 1])()
    a._neighbors = a._heteroatoms = 0
    a._hybridization = 1
    a._ring_sizes = set()
    a._in_ring = False
    a._implicit_hydrogens = 0
    a._explicit_hydrogens = 0
    fast, slow = _both(_mk_query({1: pt.AnyMetal()}, {}), _mk_mol({1: a}, {}))
    if za in (116, 117, 118):
        V.prove(True, 'Lv/Ts/Og share one bit (documented)')
    else:
        V.prove(fast == slow, 'any-metal mask agrees with the reference comparison', {'za': za, 'symbol': ELEMENTS[za - 1],
                'fast': fast, 'slow': slow})
    V.observe('m', len(fast))


def _sym_bond(V, name):
    from chython.containers.bonds import Bond
    b = object.__new__(Bond)
    o = V.wint(name + '_order', 1, 8)
    V.assume(s_or(o == 1, o == 2, o == 3, o == 4, o == 8))
    b._order = o
    b._in_ring = V.bool(name + '_ring')
    b._stereo = None
    return b


def _sym_qbond(V, name):
    from chython.containers.bonds import QueryBond
    bits = {o: V.bool(f'{name}_has{o}') for o in (1, 2, 3, 4, 8)}
    orders = tuple(o for o in (1, 2, 3, 4, 8) if bits[o])
    V.assume(len(orders) > 0)
    ring = V.choice(name + '_ring', [None, True, False])
    return QueryBond(orders, ring)


def _plain_atom(cls, V, name, charge_sym=True, lo=-2, hi=2):
    a = cls()
    a._neighbors = 1
    a._heteroatoms = 0
    a._hybridization = 1
    a._ring_sizes = set()
    a._in_ring = False
    a._implicit_hydrogens = 0
    a._explicit_hydrogens = 0
    if charge_sym:
        a._charge = V.wint(name + '_charge', lo, hi)
    return a


def _plain_query(V, name, charge_sym=True, lo=-2, hi=2):
    pt = _pt()
    q = pt.AnyElement()
    if charge_sym:
        q._charge = V.wint(name + '_charge', lo, hi)
    return q


def h_bond_level(V, falsify=False):
    pt = _pt()
    q = _mk_query({1: _plain_query(V, 'q1', False), 2: _plain_query(V, 'q2', False)}, {(1, 2): _sym_qbond(V, 'qb')})
    m = _mk_mol({5: _plain_atom(pt.C, V, 'a5', False), 9: _plain_atom(pt.N, V, 'a9', False)}, {(5, 9): _sym_bond(V, 'b')})
    fast, slow = _both(q, m, automorphism_filter=False)
    if falsify:
        slow = slow[:1]
    V.prove(fast == slow, 'compiled and reference matcher agree on one bond', {'fast': fast, 'slow': slow})
    V.observe('n', len(fast))


PATTERNS = {
    'p2': (2, [(1, 2)]), 'p3': (3, [(1, 2), (2, 3)]), 'tri': (3, [(1, 2), (2, 3), (1, 3)]),
    'p4': (4, [(1, 2), (2, 3), (3, 4)]), 'star4': (4, [(1, 2), (1, 3), (1, 4)]), 'ring4': (4, [(1, 2), (2, 3), (3, 4), (4, 1)]),
    'two': (2, []), 'p2+1': (3, [(1, 2)]),
}
TARGETS = {
    't_p3': (3, [(1, 2), (2, 3)]), 't_tri': (3, [(1, 2), (2, 3), (1, 3)]),
    't_p4': (4, [(1, 2), (2, 3), (3, 4)]), 't_ring4': (4, [(1, 2), (2, 3), (3, 4), (4, 1)]),
    't_tadpole': (4, [(1, 2), (2, 3), (1, 3), (3, 4)]), 't_star4': (4, [(1, 2), (1, 3), (1, 4)]),
    't_diamond': (4, [(1, 2), (2, 3), (3, 4), (4, 1), (1, 3)]),
    't_p2p2': (4, [(1, 2), (3, 4)]), 't_ring5': (5, [(1, 2), (2, 3), (3, 4), (4, 5), (5, 1)]),
    't_cage5': (5, [(1, 2), (2, 3), (3, 4), (4, 1), (4, 2), (3, 5), (5, 2)]),
    't_house': (5, [(1, 2), (2, 3), (3, 4), (4, 1), (1, 5), (2, 5)]), 't_tri+p2': (5, [(1, 2), (2, 3), (1, 3), (4, 5)]),
}


def brute_force(qa, qb, ta, tb, comps_t, atom_ok, bond_ok):
    """all injective maps: atoms match, pattern bonds match, no extra bond between images of one pattern component,
    different pattern components in different target components"""
    qn = list(qa)
    # pattern components
    comp_q = {}
    for n in qn:
        comp_q.setdefault(n, {n})
    changed = True
    adjq = {n: set(qb[n]) for n in qn}
    seen = set()
    comps = []
    for n in qn:
        if n in seen:
            continue
        st, c = [n], set()
        while st:
            x = st.pop()
            if x in c:
                continue
            c.add(x)
            st.extend(adjq[x] - c)
        seen |= c
        comps.append(c)
    cq = {n: i for i, c in enumerate(comps) for n in c}
    ct = {n: i for i, c in enumerate(comps_t) for n in c}
    out = []
    for img in itertools.permutations(list(ta), len(qn)):
        mp = dict(zip(qn, img))
        if not all(atom_ok(qa[n], ta[mp[n]]) for n in qn):
            continue
        ok = True
        for i, j in itertools.combinations(qn, 2):
            if j in qb[i]:
                if mp[j] not in tb[mp[i]] or not bond_ok(qb[i][j], tb[mp[i]][mp[j]]):
                    ok = False
                    break
            elif cq[i] == cq[j] and mp[j] in tb[mp[i]]:
                ok = False
                break
        if not ok:
            continue
        # one pattern component inside one target component; different components -> different target components
        tc = {}
        for n in qn:
            tc.setdefault(cq[n], set()).add(ct[mp[n]])
        if any(len(v) != 1 for v in tc.values()):
            continue
        used = [next(iter(v)) for v in tc.values()]
        if len(set(used)) != len(used):
            continue
        out.append(tuple(sorted(mp.items())))
    return sorted(out)


def h_search_level(V, pattern, target, falsify=False, sym_bonds=True, charges=(-2, 2), q_sym=True, uniform=False):
    """whole matcher on small shapes with every charge (atom label) and bond order (bond label) symbolic"""
    pt = _pt()
    from chython.containers.bonds import Bond, QueryBond
    pn, pe = PATTERNS[pattern]
    tn, te = TARGETS[target]
    lo, hi = charges
    qatoms = {n: _plain_query(V, f'q{n}', q_sym, lo=lo, hi=hi) for n in range(1, pn + 1)}
    qbonds = {}
    for k, (i, j) in enumerate(pe):
        o = 1 if uniform else V.choice(f'qb{k}', [1, 2])
        qbonds[(i, j)] = QueryBond(o)
    tatoms = {}
    deg = {n: 0 for n in range(1, tn + 1)}
    for i, j in te:
        deg[i] += 1
        deg[j] += 1
    for n in range(1, tn + 1):
        a = _plain_atom(pt.C, V, f't{n}', lo=lo, hi=hi)
        a._neighbors = deg[n]
        tatoms[10 * n] = a
    tbonds = {}
    for k, (i, j) in enumerate(te):
        b = object.__new__(Bond)
        o = V.wint(f'tb{k}_order', 1, 2) if sym_bonds else (1 if uniform else 1 + (k % 2))
        b._order = o
        b._in_ring = False
        b._stereo = None
        tbonds[(10 * i, 10 * j)] = b
    q = _mk_query(qatoms, qbonds)
    m = _mk_mol(tatoms, tbonds)
    fast, slow = _both(q, m, automorphism_filter=False)
    V.prove(fast == slow, 'compiled and reference matcher return the same mappings', {'pattern': pattern,
            'target': target, 'fast': fast, 'slow': slow})
    ref = brute_force(q._atoms, q._bonds, m._atoms, m._bonds, m.connected_components,
                      lambda qa_, ta_: bool(qa_._charge == ta_._charge),
                      lambda qb_, tb_: bool(member_order(tb_._order, qb_.order)))
    if falsify:
        ref = ref[1:] if ref else [((1, 10),)]
    V.prove(fast == ref, 'mappings equal the exhaustive reference enumeration', {'pattern': pattern, 'target': target,
            'fast': fast, 'ref': ref})
    V.observe('n', len(fast))


def member_order(o, orders):
    return s_or(*[o == x for x in orders])


def h_struct_formats(V):
    """Struct formats written by the Python side agree with the packed structs the .pyx declares"""
    ns = cysym.module('isomorphism')
    st = ns['__structs__']
    import chython.algorithms.isomorphism as iso
    code = {'unsigned long long': 'Q', 'unsigned int': 'I'}
    want = {'m_atom_struct': 'atom_t', 'q_atom_struct': 'q_atom_t', 'bond_struct': 'bond_t'}
    for sname, cname in want.items():
        fmt = ''.join(code[t] for _, t in st[cname])
        V.prove(getattr(iso, sname).format == fmt, 'Struct format equals the packed struct layout',
                {'struct': cname, 'format': getattr(iso, sname).format, 'layout': fmt})
        V.prove(getattr(iso, sname).size == cysym.struct_size(cname, st), 'Struct size equals the packed struct size',
                {'struct': cname})
    V.prove(iso.header_struct.format == 'I', 'header is one unsigned int')
    V.observe('n', 3)


HARNESSES = {'atom_level': h_atom_level, 'element_bits': h_element_bits, 'metal_bits': h_metal_bits, 'bond_level': h_bond_level,
             'search_level': h_search_level, 'struct_formats': h_struct_formats}


def finding_key(job, failure):
    return f"{job['harness']}:{failure['label']}"


def jobs(tier):
    T = tier == 'thorough'
    lens = [0, 1, 2, 3] if T else [0, 2]
    J = [{'harness': 'struct_formats', 'budget_s': 60}]
    pairs = [('element', 'C', 'C'), ('element', 'C', 'N'), ('element', 'Fe', 'Fe'), ('any', 'A', 'C'), ('list', 'C,N', 'C'),
             ('list', 'C,N', 'O'),
             ('metal', 'M', 'Fe'), ('metal', 'M', 'C'), ('metal', 'M', 'He'), ('metal', 'M', 'Sb'), ('metal', 'M', 'Rn'),
             ('metal', 'M', 'Na'), ('metal', 'M', 'At'), ('metal', 'M', 'Po'), ('metal', 'M', 'La'),
             ('metal', 'M', 'Xe'), ('metal', 'M', 'Te')]
    if T:
        pairs += [('element', 'N', 'N'), ('element', 'U', 'U'), ('any', 'A', 'Fe'), ('list', 'C,N', 'N'),
                  ('list', 'Cl,Br,I', 'Br'), ('metal', 'M', 'Ge'), ('metal', 'M', 'U'), ('metal', 'M', 'Lv')]
    for kind, q, a in pairs:
        J.append({'harness': 'atom_level', 'params': {'kind': kind, 'q_el': q, 'a_el': a, 'lens': lens}, 'budget_s': 1500,
                  'validate_every': 50, 'weight': 900 if kind != 'metal' else 50})
        if kind != 'metal' and (T or (q, a) in (('C', 'C'), ('A', 'C'))):
            J.append({'harness': 'atom_level', 'params': {'kind': kind, 'q_el': q, 'a_el': a, 'rings': True},
                      'budget_s': 900, 'validate_every': 50, 'weight': 300})
    J.append({'harness': 'atom_level', 'params': {'kind': 'element', 'q_el': 'C', 'a_el': 'C', 'lens': [0], 'falsify': True},
              'twin': True, 'budget_s': 300, 'max_failures': 1, 'validate': False})
    for lo in range(1, 119, 10):
        J.append({'harness': 'element_bits', 'params': {'lo': lo, 'hi': min(118, lo + 9)}, 'budget_s': 1500,
                  'validate_every': 200, 'weight': 800, 'max_failures': 20})
    J.append({'harness': 'metal_bits', 'budget_s': 300, 'max_failures': 20})
    J.append({'harness': 'bond_level', 'budget_s': 600, 'validate_every': 20})
    J.append({'harness': 'bond_level', 'params': {'falsify': True}, 'twin': True, 'budget_s': 300, 'max_failures': 1,
              'validate': False})
    # quick: every atom label (charge) symbolic, target bond orders fixed; thorough: bond orders symbolic as well
    combos = [('p2', 't_p3', True), ('p3', 't_tri', False), ('p3', 't_ring4', False), ('tri', 't_tadpole', False),
              ('two', 't_p2p2', False), ('p2+1', 't_p2p2', False)]
    if T:
        combos = [('p2', 't_p3', True), ('p3', 't_tri', True), ('p3', 't_ring4', True), ('p3', 't_star4', True),
                  ('two', 't_p2p2', True), ('p2+1', 't_p2p2', True), ('tri', 't_tadpole', False), ('tri', 't_diamond', False),
                  ('p4', 't_ring5', False), ('star4', 't_house', False), ('ring4', 't_house', False),
                  ('p2+1', 't_tri+p2', False), ('ring4', 't_diamond', False)]
    for p, t, sb in combos:
        # 4-atom patterns on 5-atom targets did not finish in 40 minutes with three charge values: two there
        wide = T and (p, t) not in (('p4', 't_ring5'), ('star4', 't_house'), ('ring4', 't_house'))
        J.append({'harness': 'search_level', 'params': {'pattern': p, 'target': t, 'sym_bonds': sb,
                                                        'charges': [-1, 1] if wide else [0, 1]},
                  'budget_s': 2400, 'validate_every': 50, 'weight': 1500})
    # ring patterns on targets with chords / fused small rings (closure bookkeeping of the compiled search): target
    # atom labels symbolic, query labels fixed
    for p, t in [('ring4', 't_cage5'), ('ring4', 't_house'), ('ring4', 't_diamond'), ('tri', 't_diamond'), ('tri', 't_cage5')]:
        J.append({'harness': 'search_level', 'params': {'pattern': p, 'target': t, 'sym_bonds': False, 'charges': [0, 1],
                                                        'q_sym': False, 'uniform': True}, 'budget_s': 1200, 'validate_every': 20,
                  'weight': 600})
    J.append({'harness': 'search_level', 'params': {'pattern': 'p2', 't' 'arget': 't_p3', 'falsify': True}, 'twin': True,
              'budget_s': 300, 'max_failures': 1, 'validate': False})
    return J
