"""C14 Normalisation conserves composition, is idempotent and numbering independent."""
import ast
from collections import Counter

from vlib.spell import respell

PROPERTY = 'C14'

META = {
    'functions_encoded': [
        'chython/algorithms/standardize/molecule.py: standardize, canonicalize, implicify_hydrogens, explicify_hydrogens, '
        'check_valence, __standardize', 'chython/algorithms/standardize/_groups.py (rule tables, through standardize)',
        'chython/algorithms/standardize/resonance.py: fix_resonance', 'chython/algorithms/tautomers: neutralize, '
        'enumerate_tautomers',
    ],
    'bounds': {
        'quick': 'the spelling -> canonical spelling pairs harvested (by ast, on every run) from the repository\'s own '
                 'test_groups.py, each under every random-order spelling of the input (random() symbolic, inputs <= 8 heavy '
                 'atoms in quick); explicify / implicify / canonicalize / neutralize / fix_resonance / tautomers / standardize_charges on 26 seeds, each with and without reading derived values first '
                 'under every spelling; explicify / implicify under every numbering with gaps (distinct solver integers in '
                 '1..2n+2) of 2 seeds',
        'thorough': 'all harvested pairs, 30 seeds',
    },
    'outside_claim': ['rule interactions beyond the harvested pairs and seeds', 'numbering independence with hetero-arene '
                      'tautomer fixing enabled (recorded gap): asserted with fix_tautomers=False'],
    'stubs': ['chython.algorithms.smiles.random -> fresh z3 Real; min -> n-way argmin'],
    'assumptions': ['the harvested pairs are the documented canonical spellings (the repository\'s own expectation)'],
}

_PAIRS = None


def pairs():
    global _PAIRS
    if _PAIRS is None:
        src = open('/repo/chython/algorithms/standardize/test/test_groups.py').read()
        tree = ast.parse(src)
        data = next(n.value for n in tree.body if isinstance(n, ast.Assign) and getattr(n.targets[0], 'id', '') == 'data')
        _PAIRS = [tuple(ast.literal_eval(e)) for e in data.elts]
    return _PAIRS


def heavy(m):
    return Counter((a.atomic_number, a.isotope) for _, a in m.atoms() if a.atomic_number != 1)


def total_h(m):
    return sum((a.implicit_hydrogens or 0) for _, a in m.atoms()) + sum(a.atomic_number == 1 for _, a in m.atoms())


def h_group(V, k, falsify=False):
    """documented functional-group spelling -> documented canonical spelling, for every spelling of the input"""
    import chython
    raw, result = pairs()[k]
    src = chython.smiles(raw)
    want = chython.smiles(result)
    if falsify:
        want = chython.smiles(result + '.C')
    text, order = respell(V, src.copy())
    m = chython.smiles(text)
    before_heavy, before_charge = heavy(m), int(m)
    valid_input = m.check_valence() == []
    m.standardize()
    info = {'raw': raw, 'text': text, 'got': str(m), 'want': str(want)}
    V.prove(m == want, 'the documented spelling is converted to its documented canonical spelling, whatever the input order',
            info)
    V.prove(heavy(m) == before_heavy, 'heavy-atom multiset conserved', info)
    if valid_input:      # mis-drawn (valence-invalid) spellings are repaired by moving charges: conservation is claimed
        V.prove(int(m) == before_charge, 'net charge conserved', info)        # for valence-valid input only
    s1 = str(m)
    m.standardize()
    V.prove(str(m) == s1, 'standardize is idempotent', info)
    V.observe('text', text)


def h_hydrogens(V, smi):
    import chython
    src = chython.smiles(smi)
    if any(b.order == 4 for *_, b in src.bonds()):
        src.kekule()
    text, order = respell(V, src.copy())
    m = chython.smiles(text)
    if any(b.order == 4 for *_, b in m.bonds()):
        m.kekule()
    base = str(m)
    n_heavy, n_h = heavy(m), total_h(m)
    impl = sum((a.implicit_hydrogens or 0) for _, a in m.atoms())
    atoms_before = len(m)
    added = m.explicify_hydrogens()
    info = {'text': text, 'seed': smi}
    V.prove(added == impl and len(m) == atoms_before + impl, 'explicify adds exactly the implicit hydrogens', info)
    V.prove(all((a.implicit_hydrogens or 0) == 0 for _, a in m.atoms()), 'no implicit hydrogen is left', info)
    V.prove(heavy(m) == n_heavy and total_h(m) == n_h, 'heavy atoms and hydrogen total unchanged', info)
    again = m.explicify_hydrogens()
    V.prove(again == 0, 'explicify is idempotent', info)
    removed = m.implicify_hydrogens()
    V.prove(len(m) == atoms_before and str(m) == base, 'implicify restores the molecule (mutually inverse)',
            dict(info, got=str(m), want=base))
    V.prove(m.implicify_hydrogens() == 0, 'implicify is idempotent', info)
    V.prove(m.check_valence() == [], 'no valence error', info)
    V.observe('text', text)


def h_hydrogens_numbering(V, smi):
    """explicify / implicify under every atom numbering with gaps: numbers are distinct solver integers in 1..2n+2"""
    import chython
    m = chython.smiles(smi)
    n = len(m)
    nums = [V.int(f'num{i}', 1, 2 * n + 2) for i in range(n)]
    V.distinct(*nums)
    mapping = {i + 1: int(x) for i, x in enumerate(nums)}
    m.remap(mapping)
    info = {'seed': smi, 'numbers': mapping}
    before = {k: (a.atomic_number, a.isotope, a.charge, a.is_radical, a.implicit_hydrogens) for k, a in m.atoms()}
    nb = {k: sorted(m._bonds[k]) for k in m._atoms}
    impl = sum(v[4] or 0 for v in before.values())
    base = str(m)
    added = m.explicify_hydrogens()
    V.prove(added == impl and len(m) == n + impl, 'explicify adds exactly the implicit hydrogens', dict(info, got=len(m)))
    V.prove(all(k in m._atoms and (m._atoms[k].atomic_number, m._atoms[k].isotope, m._atoms[k].charge, m._atoms[k].is_radical)
                == v[:4] for k, v in before.items()), 'every atom keeps its number and identity', info)
    V.prove(all(sorted(x for x in m._bonds[k] if x in before) == nb[k] for k in before), 'and its heavy neighbours', info)
    V.prove(all(m._atoms[k].atomic_number == 1 and len(m._bonds[k]) == 1 for k in m._atoms if k not in before),
            'new atoms are hydrogens with one bond each', info)
    V.prove(all(x in m._atoms for k in m._atoms for x in m._bonds[k]), 'no bond points to a missing atom', info)
    m.implicify_hydrogens()
    V.prove(str(m) == base and set(m._atoms) == set(before), 'implicify restores the molecule (mutually inverse)',
            dict(info, got=str(m), want=base))
    V.observe('n', added)


ALIAS = {'C[n+]1ccn(CC)c1': 'Cn1cc[n+](CC)c1', 'C[n+]1cccn1CC': 'Cn1ccc[n+]1CC'}


def normal(m):
    c = m.copy()
    if any(b.order == 4 for *_, b in c.bonds()):
        c.kekule()
    c.thiele()
    return str(c)


def h_normalise(V, smi, op):
    import chython
    src = chython.smiles(smi)
    if any(b.order == 4 for *_, b in src.bonds()):
        src.kekule()
        src.thiele()
    ref = src.copy()
    if smi in ALIAS and op in ('standardize_charges', 'canonicalize'):      # standardize() alone leaves charges where drawn
        # the other resonance spelling of the same cation must be brought to the same place
        ref = chython.smiles(ALIAS[smi])
        ref.kekule()
        ref.thiele()
    text, order = respell(V, src.copy())
    m = chython.smiles(text)
    if any(b.order == 4 for *_, b in m.bonds()):
        m.kekule()
        m.thiele()
    info = {'text': text, 'seed': smi, 'op': op}
    if bool(V.bool('read_before')):      # ordinary bookkeeping before the operation fills the caches
        str(m), hash(m), m.atoms_order, m.sssr
        info['read_before'] = True
    hv, ch, hh = heavy(m), int(m), total_h(m)

    def run(x):
        if op == 'canonicalize':
            x.canonicalize(fix_tautomers=False)
        elif op == 'standardize':
            x.standardize(fix_tautomers=False)
        elif op == 'neutralize':
            x.neutralize()
        elif op == 'standardize_charges':
            x.standardize_charges()
        elif op == 'neutralize_all':
            x.neutralize(keep_charge=False)
        elif op == 'fix_resonance':
            x.fix_resonance()
    if op == 'tautomers':
        ts = list(m.enumerate_tautomers())
        V.prove(len(ts) >= 1, 'at least the input form is enumerated', info)
        V.prove(len({str(t) for t in ts}) == len(ts), 'tautomers are de-duplicated', info)
        for t in ts:
            V.prove(heavy(t) == hv, 'a tautomer has the same heavy atoms', dict(info, got=str(t)))
            V.prove(int(t) == ch and total_h(t) == hh, 'a tautomer has the same net charge and hydrogen count', dict(info, got=str(t)))
            V.prove(t.check_valence() == [], 'a tautomer has no valence error', dict(info, got=str(t)))
        ref_set = {str(t) for t in ref.enumerate_tautomers()}
        V.prove({str(t) for t in ts} == ref_set, 'the tautomer set does not depend on the input order', dict(info,
                got=sorted(str(t) for t in ts), want=sorted(ref_set)))
        V.observe('n', len(ts))
        return
    run(m)
    run(ref)
    V.prove(heavy(m) == hv, 'heavy-atom multiset conserved', info)
    if op == 'neutralize_all':
        V.prove(int(m) - ch == total_h(m) - hh, 'neutralisation changes charge and hydrogens by the same number of protons',
                dict(info, got=str(m)))
    else:
        V.prove(int(m) == ch and total_h(m) == hh, 'net charge and hydrogen count conserved', dict(info, got=str(m)))
    V.prove(m.check_valence() == [], 'no valence error', dict(info, got=str(m)))
    # compared "once aromaticity is normalised" (C01): the operations leave Kekule rings as drawn, and the canonical string
    # of a Kekule ring is that of one particular placement of its double bonds
    V.prove(normal(m) == normal(ref), 'result does not depend on the input order', dict(info, got=str(m), want=str(ref)))
    s1 = str(m)
    run(m)
    V.prove(str(m) == s1, 'operation is idempotent', dict(info, got=str(m), want=s1))
    V.observe('text', text)


HARNESSES = {'group': h_group, 'hydrogens': h_hydrogens, 'normalise': h_normalise,
             'hydrogens_numbering': h_hydrogens_numbering}

SEEDS_Q = ['CCO', 'CC(=O)O', 'CC(=O)[O-].[Na+]', 'C[N+](C)(C)C', 'NCC(=O)O', 'c1ccncc1', 'c1cc[nH]c1', 'C[N+](=O)[O-]',
           'OC=CC', 'CC(=O)CC', 'C[C@H](N)C(=O)O', 'OS(=O)(=O)O', 'C[NH3+]',
           # every branch of the charge / radical delocalisation: success, valence roll-back at a quaternary N, the
           # sulfur-cation guard (acyclic and Kekule thiopyrylium), biradical
           '[O-]C=CC=[N+](C)C', '[O-]C=C[N+](C)(C)C', '[O-]C=C[S+]=C', 'CN(C)C1=C[S+]=CC=C1', 'C[S+](C)C=C[O-]',
           '[CH2]C=C[CH2]',
           # charge-unbalanced salts: more proton donors than acceptors, and the reverse
           # azolium cations: the charge is put on a canonical nitrogen whichever resonance spelling came in
           'Cn1cc[n+](CC)c1', 'C[n+]1ccn(CC)c1', 'Cn1ccc[n+]1CC', 'C[n+]1cccn1CC',
           '[NH3+]CC([NH3+])C([O-])=O', '[O-]C(=O)CC([NH3+])C([O-])=O', 'C[NH3+].CC(=O)[O-]']
SEEDS_T = SEEDS_Q + ['Oc1ccccc1', 'O=C1C=CNC=C1', 'CC(O)=N', 'NC(=N)N', 'OP(O)(O)=O', 'C1=CC=CC=C1', 'F/C=C/C(=O)O',
                     'CC(=O)Oc1ccccc1', 'N[C@@H](CS)C(O)=O', 'C[S+](C)[O-]', 'CC#N', 'C=CC=O', 'OC1=NC=CC=C1', '[O-]c1ccccc1',
                     'CC(=O)NC', 'OCC(O)CO']


def finding_key(job, failure):
    p = job['params']
    return f"{job['harness']}:{failure['label']}:{p.get('k', p.get('smi'))}:{p.get('op', '')}"


def jobs(tier):
    T = tier == 'thorough'
    J = []
    for k, (raw, result) in enumerate(pairs()):
        size = sum(ch.isupper() for ch in raw)
        if T or size <= 6:
            J.append({'harness': 'group', 'params': {'k': k}, 'budget_s': 600, 'validate_every': 50, 'max_failures': 3,
                      'weight': 4 ** min(size, 8), 'name': f'group:{raw}'})
    J.append({'harness': 'group', 'params': {'k': 0, 'falsify': True}, 'twin': True, 'budget_s': 120, 'max_failures': 1})
    for s in (SEEDS_T if T else SEEDS_Q):
        J.append({'harness': 'hydrogens', 'params': {'smi': s}, 'budget_s': 600, 'validate_every': 50, 'max_failures': 3})
        for op in ('canonicalize', 'standardize', 'standardize_charges', 'neutralize', 'neutralize_all', 'fix_resonance', 'tautomers'):
            J.append({'harness': 'normalise', 'params': {'smi': s, 'op': op}, 'budget_s': 600, 'validate_every': 50,
                      'max_failures': 3})
    for s in (['CCO', 'C[NH3+]', 'CC(=O)O', 'N'] if T else ['CCO', 'C[NH3+]']):
        J.append({'harness': 'hydrogens_numbering', 'params': {'smi': s}, 'budget_s': 600, 'validate_every': 50,
                  'max_failures': 3})
    return J
