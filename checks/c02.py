"""C02 SMILES write then read is lossless; canonical strings never collide."""
from vlib.minisym import s_and, s_or, s_not, s_iff
from vlib.spell import respell
from vlib import seeds, refsmiles
from checks.c01 import mol_of

PROPERTY = 'C02'

META = {
    'functions_encoded': [
        'chython/algorithms/smiles.py: Smiles._smiles, __format__ (styles a, A, m, h, r), MoleculeSmiles._format_atom, '
        '_format_bond, __ct_map, _format_cxsmiles',
        'chython/files/daylight/smiles.py: smiles, postprocess_molecule; tokenize.py; parser.py; files/_convert.py',
        'chython/algorithms/stereo.py: _translate_tetrahedron_sign, _translate_cis_trans_sign, _translate_allene_sign',
    ],
    'bounds': {
        'quick': 'every random write order (random() symbolic) x the 16 combinations of the style flags a, A, m, h '
                 '(solver-forked) of 34 seeds (<= 7 heavy atoms); label injectivity on 8 seeds with free charge/isotope slots',
        'thorough': '56 seeds up to 15 heavy atoms',
    },
    'outside_claim': ['canonical-string collisions between different skeletons (would need pair enumeration of graphs)',
                      'atom map numbers beyond the listed boundary values'],
    'stubs': ['chython.algorithms.smiles.random -> fresh z3 Real; min -> n-way argmin'],
    'assumptions': ['comparison uses the written atom order, not canonicalisation'],
}


def normalise(back):
    """aromatic text leaves the hydrogen count of ring hetero-atoms open until the library's own kekule/thiele pass
    (documented); the comparison is made on the normalised molecule, as for the seeds"""
    if any(b.order == 4 for *_, b in back.bonds()):
        back.kekule()
        back.thiele()
    return back


def compare_written(V, m, back, corr, text, falsify=False):
    info = {'text': text}
    normalise(back)
    V.prove(len(back) == len(m), 'same number of atoms', info)
    V.prove(back.bonds_count == m.bonds_count, 'same number of bonds', info)
    for n, a in m.atoms():
        b = back._atoms.get(corr[n])
        V.prove(b is not None, 'atom present under the written correspondence', info)
        if b is None:
            return
        V.prove(b.atomic_number == a.atomic_number, 'element preserved', info)
        V.prove(b.isotope == a.isotope, 'isotope preserved', info)
        V.prove(b.charge == (a.charge if not falsify else a.charge + 1), 'charge preserved', info)
        V.prove(b.is_radical == a.is_radical, 'radical flag preserved', info)
        V.prove(b.implicit_hydrogens == a.implicit_hydrogens, 'hydrogen count preserved',
                dict(info, atom=n, got=b.implicit_hydrogens, want=a.implicit_hydrogens))
    for x, y, bond in m.bonds():
        ok = corr[y] in back._bonds.get(corr[x], {})
        V.prove(ok, 'bond present', info)
        if ok:
            V.prove(back._bonds[corr[x]][corr[y]].order == bond.order, 'bond order preserved',
                    dict(info, bond=[x, y], got=back._bonds[corr[x]][corr[y]].order, want=bond.order))
    # configuration, compared in one common neighbour order on both sides
    for c, a in m.atoms():
        if a.stereo is None:
            continue
        b = back._atoms[corr[c]]
        V.prove(b.stereo is not None, 'stereo label survives', dict(info, atom=c))
        if b.stereo is None:
            continue
        if c in m.stereogenic_tetrahedrons:
            env = tuple(m._bonds[c])
            s1 = m._translate_tetrahedron_sign(c, env)
            s2 = back._translate_tetrahedron_sign(corr[c], tuple(corr[x] for x in env))
            V.prove(s1 == s2, 'tetrahedral configuration preserved', dict(info, atom=c))
        else:
            e = m.stereogenic_allenes[c]
            s1 = m._translate_allene_sign(c, e[0], e[1])
            t1, t2 = back._stereo_allenes_terminals[corr[c]]
            n1, n2 = corr[e[0]], corr[e[1]]
            if n1 not in back._bonds[t1]:
                n1, n2 = n2, n1
            s2 = back._translate_allene_sign(corr[c], n1, n2)
            V.prove(s1 == s2, 'allene configuration preserved', dict(info, atom=c))
    for x, y, bond in m.bonds():
        if bond.stereo is None:
            continue
        t1, t2 = m._stereo_cis_trans_terminals[x]
        e = m.stereogenic_cis_trans[(t1, t2)]
        s1 = m._translate_cis_trans_sign(t1, t2, e[0], e[1])
        bb = back._bonds[corr[x]][corr[y]]
        V.prove(bb.stereo is not None, 'cis/trans label survives', dict(info, bond=[x, y]))
        if bb.stereo is not None:
            s2 = back._translate_cis_trans_sign(corr[t1], corr[t2], corr[e[0]], corr[e[1]])
            V.prove(s1 == s2, 'cis/trans configuration preserved', dict(info, bond=[x, y]))


def h_roundtrip(V, smi, falsify=False):
    import chython
    src = mol_of(smi)
    m = src.copy()
    spec = 'r'
    for f in ('a', 'A', 'm', 'h'):
        if V.bool('flag_' + f):
            spec += f
    text, order = respell(V, m, spec)
    back = chython.smiles(text)
    if 'm' in spec:
        corr = {n: n for n in order}
    else:
        corr = {n: i + 1 for i, n in enumerate(order)}
    compare_written(V, m, back, corr, text, falsify)
    # an independent reader sees the same atoms in the same order
    ref = refsmiles.read(text.split()[0])
    V.prove(len(ref.atoms) == len(order), 'independent reader counts the same atoms', {'text': text})
    for i, n in enumerate(order):
        a, r = m._atoms[n], ref.atoms[i]
        V.prove(r.symbol == a.atomic_symbol and (r.isotope or None) == a.isotope and r.charge == a.charge,
                'independent reader sees element, isotope and charge of the written atom', {'text': text, 'atom': n})
        if 'm' in spec:
            V.prove(r.amap == n, 'atom map equals the atom number', {'text': text})
        if r.bracket:
            V.prove(r.hcount == (a.implicit_hydrogens or 0), 'bracket hydrogen count equals the stored count',
                    {'text': text, 'atom': n})
    V.observe('text', text)


def h_canonical_roundtrip(V, smi):
    """canonical styles (no random order): all flag combinations incl. the plain canonical string"""
    import chython
    src = mol_of(smi)
    m = src.copy()
    spec = ''
    for f in ('a', 'A', 'm', 'h'):
        if V.bool('flag_' + f):
            spec += f
    text, order = m.__format__(spec, _return_order=True)
    cx = m._format_cxsmiles(order)
    if cx:
        text = f'{text} {cx}'
    back = chython.smiles(text)
    corr = {n: n for n in order} if 'm' in spec else {n: i + 1 for i, n in enumerate(order)}
    compare_written(V, m, back, corr, text)
    V.prove(str(back) == str(src), 'canonical string of the re-read molecule is the original one', {'text': text})
    # every mark of the seed text denotes a stereogenic element (seed corpus is chosen so): none may be dropped on reading
    ref = refsmiles.read(smi.split()[0])
    marks_a = sum(a.chirality is not None for a in ref.atoms)
    marks_b = len(ref.double_bond_geometry())
    V.prove(sum(a.stereo is not None for _, a in src.atoms()) == marks_a, 'every chirality mark of the seed text is kept as '
            'a label', {'seed': smi})
    V.prove(sum(b.stereo is not None for *_, b in src.bonds()) == marks_b, 'every marked double bond of the seed text is kept '
            'as a label', {'seed': smi})
    V.observe('text', text)


FREE = [('C[N+](C)(C)C', 'charge'), ('CC(=O)[O-]', 'charge'), ('[13CH3]C', 'isotope'), ('C[CH]C', 'radical'),
        ('NCCN', 'charge2'), ('[13CH3]C[13CH3]', 'isotope2'), ('C[C@H](N)O', 'stereo'), ('F/C=C/Cl', 'stereo')]


def h_injective(V, smi, kind):
    """two copies of one skeleton with independent symbolic labels: equal canonical strings => equal labels (up to the
    skeleton's automorphisms)"""
    src = mol_of(smi)
    a, b = src.copy(), src.copy()
    heavy = [n for n, at in src.atoms()]

    def decorate(m, tag):
        lab = []
        for n in heavy:
            at = m._atoms[n]
            if kind.startswith('charge') and at.atomic_number == 7:
                c = V.choice(f'{tag}_c{n}', [0, 1])
                at._charge = c
                lab.append(c)
            elif kind == 'charge' and at.atomic_number == 8 and at.charge:
                c = V.choice(f'{tag}_c{n}', [-1, 0])
                at._charge = c
                lab.append(c)
            elif kind.startswith('isotope') and at.isotope:
                i = V.choice(f'{tag}_i{n}', [None, 13, 14])
                at._isotope = i
                lab.append(i)
            elif kind == 'radical' and at.is_radical:
                r = V.choice(f'{tag}_r{n}', [False, True])
                at._is_radical = r
                lab.append(r)
            elif kind == 'stereo' and at.stereo is not None:
                s = V.choice(f'{tag}_s{n}', [False, True])
                at._stereo = s
                lab.append(s)
        if kind == 'stereo':
            for x, y, bond in m.bonds():
                if bond.stereo is not None:
                    s = V.choice(f'{tag}_sb{x}', [False, True])
                    bond._stereo = s
                    lab.append(s)
        m.flush_cache()
        for n in heavy:
            m.calc_implicit(n)
        m.flush_cache()
        return lab
    la, lb = decorate(a, 'a'), decorate(b, 'b')
    same_str = str(a) == str(b)
    # the two-slot seeds are mirror symmetric: exchanging the two labels gives the same molecule
    same_lab = la == lb or (len(la) == 2 and kind in ('charge2', 'isotope2') and la == lb[::-1])
    V.prove(same_str == same_lab, 'canonical strings coincide exactly when the labels do', {'seed': smi, 'a': la, 'b': lb,
            'str_a': str(a), 'str_b': str(b)})
    V.prove((hash(a) == hash(b)) or not same_lab, 'equal molecules hash equal')
    V.observe('eq', same_str)


def h_map_boundary(V):
    """atom numbers at the digit boundaries of the map field survive the 'm' style"""
    import chython
    n = V.choice('number', [1, 9, 10, 999, 1000, 9999, 10000, 123456, 10 ** 9 + 1])
    m = chython.smiles('CO')
    m.remap({1: n + 5, 2: n})
    text = format(m, 'm')
    back = chython.smiles(text)
    V.prove(sorted(back._atoms) == sorted(m._atoms), 'atom numbers survive the mapped style', {'text': text})
    V.prove(str(back) == str(m), 'same molecule', {'text': text})
    V.observe('text', text)


HARNESSES = {'roundtrip': h_roundtrip, 'canonical_roundtrip': h_canonical_roundtrip, 'injective': h_injective,
             'map_boundary': h_map_boundary}


def finding_key(job, failure):
    return f"{job['harness']}:{failure['label']}:{job['params'].get('smi', '')}"


# conjugated diene in a ring: spellings that close the ring with one of the stereo double bonds (recorded finding)
RING_DIENES = ['C1CCCCCC/C=C/C=C/1']


def jobs(tier):
    T = tier == 'thorough'
    J = []
    for s in (seeds.THOROUGH if T else seeds.QUICK):
        J.append({'harness': 'roundtrip', 'params': {'smi': s}, 'budget_s': 2400 if T else 900, 'validate_every': 50,
                  'weight': 10 * len(s)})
        J.append({'harness': 'canonical_roundtrip', 'params': {'smi': s}, 'budget_s': 300, 'weight': 5})
    J.append({'harness': 'roundtrip', 'params': {'smi': 'CC[O-]', 'falsify': True}, 'twin': True, 'budget_s': 120,
              'max_failures': 1})
    for s in seeds.BIG_STEREO:
        J.append({'harness': 'canonical_roundtrip', 'params': {'smi': s}, 'budget_s': 300, 'weight': 5})
    for s in RING_DIENES:
        J.append({'harness': 'roundtrip', 'params': {'smi': s}, 'budget_s': 900, 'validate_every': 50, 'weight': 200,
                  'max_failures': 50})
    J.append({'harness': 'map_boundary', 'budget_s': 60, 'max_failures': 20})
    for s, k in FREE:
        J.append({'harness': 'injective', 'params': {'smi': s, 'kind': k}, 'budget_s': 300})
    return J
