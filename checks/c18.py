"""C18 Periodic table data are complete and mutually consistent."""
import ast
import re

import z3

from vlib.minisym import SymBool, SymInt, s_and, s_or, s_not, s_iff, implies, is_sym
from vlib import refsmiles
from vlib.matcherbits import compiled_structure_fields

PROPERTY = 'C18'
STANDARD = refsmiles.ELEMENTS      # my own table of the 118 symbols in order

META = {
    'functions_encoded': [
        'chython/periodictable/group*.py element classes: atomic_number, isotopes_distribution, isotopes_masses, '
        'mdl_isotope (evaluated on the class, asserted as z3 If-chains over the symbolic element number)',
        'Element.from_symbol, from_atomic_number, isotope.setter, atomic_mass, _compiled_valence_rules, valence_rules',
        'chython/containers/_pack_v2.pyx: common_isotopes; _unpack_v0v2.pyx: common_isotopes, elements (literals read '
        'from the current source text)',
        'MoleculeIsomorphism._cython_compiled_structure (real code on symbolic isotope/charge/H/radical)',
        'chython/periodictable/__init__.py generated Query*/Dynamic* classes',
    ],
    'bounds': 'element number 1..118, isotope over all tabulated keys, charge -4..4, hydrogens 0..4 (matcher) / 0..6 '
              '(pack), radical flag: finite domain, decided by single validity queries where the code keeps the '
              'value symbolic and by solver-enumerated realisation (one path per value) where the code hashes it',
    'outside_claim': ['numerical correctness of masses and abundances (only key sets and computability)',
                      'ring-size / neighbour fields of the matcher layout (C09)'],
    'stubs': ['struct.Struct.pack / BytesIO in chython.algorithms.isomorphism replaced by a field recorder'],
    'assumptions': [],
}


# ------------------------------------------------------------------------------------------- tables from source

_T = {}


def tables():
    if _T:
        return _T
    from chython.periodictable import Element
    import chython.periodictable as pt
    classes = {}
    for c in Element.__subclasses__():
        z = c.atomic_number.fget(None)
        classes.setdefault(z, []).append(c)
    _T['classes'] = classes
    info = {}
    for z, cs in classes.items():
        c = cs[0]
        a = object.__new__(c)
        info[z] = {'name': c.__name__, 'dist': dict(a.isotopes_distribution), 'mass': dict(a.isotopes_masses),
                   'mdl': a.mdl_isotope}
    _T['info'] = info
    for name, path in (('pack', '/repo/chython/containers/_pack_v2.pyx'),
                       ('unpack', '/repo/chython/containers/_unpack_v0v2.pyx')):
        src = open(path).read()
        m = re.search(r'common_isotopes\[:\]\s*=\s*(\[[^\]]*\])', src)
        _T[name + '_common'] = ast.literal_eval(m.group(1))
        if name == 'unpack':
            m = re.search(r'^elements\s*=\s*\[([^\]]*)\]', src, re.M)
            _T['unpack_elements'] = [x.strip() for x in m.group(1).split(',')]
    return _T


def fn_table(Z, values, default=-10 ** 6):
    """z3 If-chain table[Z] for a {int: int} mapping"""
    if not is_sym(Z):
        return values.get(int(Z), default)
    e = z3.IntVal(default)
    for k, v in values.items():
        e = z3.If(Z.e == k, z3.IntVal(v), e)
    return SymInt(e)


def member(Z, iso, sets):
    """(Z, iso) in {z: set}"""
    if not is_sym(Z) and not is_sym(iso):
        return int(iso) in sets.get(int(Z), ())
    if not is_sym(Z):
        return s_or(*[iso == k for k in sets.get(int(Z), ())])
    return s_or(*[s_and(Z == z, s_or(*[iso == k for k in ks])) for z, ks in sets.items() if ks])


# ------------------------------------------------------------------------------------------- harnesses

def h_numbering(V):
    """118 classes, numbers 1..118 each exactly once (concrete facts about the class list, then the symbolic lookups)"""
    T = tables()
    V.prove(sorted(T['classes']) == list(range(1, 119)), 'element numbers are exactly 1..118')
    V.prove(all(len(v) == 1 for v in T['classes'].values()), 'no two classes share a number')
    V.prove(len(T['pack_common']) == 119 and len(T['unpack_common']) == 119 and len(T['unpack_elements']) == 119,
            'codec tables have 119 entries')
    V.observe('n', len(T['classes']))


def h_symbol_number(V, falsify=False):
    from chython.periodictable import Element
    import chython.periodictable as pt
    # the number -> class table is a lazily filled process-wide cache: start every path from the empty cache and enter
    # through the base class, an element class or an instance (all are legal ways to call the classmethod)
    Element.__class_cache__.pop('elements', None)
    via = V.choice('via', ['Element', 'class', 'instance'])
    entry = {'Element': Element, 'class': pt.C, 'instance': pt.Fe()}[via]
    Z = V.int('Z', 1, 118)
    cls = entry.from_atomic_number(Z)        # dict lookup: the solver enumerates Z
    V.prove(Element.from_atomic_number(int(Z)) is cls, 'lookup result does not depend on the entry point', {'via': via})
    z = int(Z)
    std = STANDARD[z - 1] if not falsify else STANDARD[z % 118]
    V.prove(cls.__name__ == std, 'number -> symbol agrees with the standard table', {'Z': z})
    V.prove(Element.from_symbol(std) is cls, 'symbol -> class is the inverse lookup', {'Z': z})
    a = cls()
    V.prove(a.atomic_number == z and a.atomic_symbol == std, 'instance reports the same number and symbol')
    V.prove(a == z and a == std, 'atom compares equal to its number and symbol')
    q = getattr(pt, 'Query' + std, None)
    d = getattr(pt, 'Dynamic' + std, None)
    V.prove(q is not None and q.atomic_number.fget(None) == z, 'query variant exists with the same number', {'Z': z})
    V.prove(d is not None and d.atomic_number.fget(None) == z, 'dynamic variant exists with the same number', {'Z': z})
    V.prove(q is not None and q.mdl_isotope.fget(None) == a.mdl_isotope, 'query variant has the same reference isotope')
    T = tables()
    V.prove(T['unpack_elements'][z] == std, 'pack decoder element table has class Z at index Z', {'Z': z})
    V.observe('sym', cls.__name__)


def h_isotope_keys(V, falsify=False):
    """one query each over symbolic (Z, isotope)"""
    T = tables()
    Z = V.int('Z', 1, 118)
    iso = V.int('iso', 0, 400)
    dist = {z: set(i['dist']) for z, i in T['info'].items()}
    mass = {z: set(i['mass']) for z, i in T['info'].items()}
    in_d, in_m = member(Z, iso, dist), member(Z, iso, mass)
    if falsify:
        in_m = s_and(in_m, iso != 12)
    V.prove(s_iff(in_d, in_m), 'abundance and mass tables have the same isotope keys')
    V.observe('n', sum(len(v) for v in dist.values()))


def h_reference_isotope(V):
    """the reference isotope is a tabulated isotope; element number realised so that every offender is reported"""
    T = tables()
    Z = V.int('Z', 1, 118)
    z = int(Z)
    i = T['info'][z]
    V.prove(i['mdl'] in i['dist'], 'reference (mdl) isotope is a key of the abundance table', {'Z': z, 'symbol': i['name'],
            'mdl_isotope': i['mdl'], 'keys': sorted(i['dist'])})
    V.prove(i['mdl'] in i['mass'], 'reference (mdl) isotope is a key of the mass table', {'Z': z, 'symbol': i['name']})
    V.observe('mdl', i['mdl'])


def h_codec_reference(V, falsify=False):
    T = tables()
    Z = V.int('Z', 1, 118)
    mdl = fn_table(Z, {z: i['mdl'] for z, i in T['info'].items()})
    pc = fn_table(Z, dict(enumerate(T['pack_common'])))
    uc = fn_table(Z, dict(enumerate(T['unpack_common'])))
    V.prove(pc == mdl - (16 if not falsify else 15), 'pack encoder reference = reference isotope - 16')
    V.prove(uc == mdl - 16, 'pack decoder reference = reference isotope - 16')
    V.observe('n', 118)


def h_pack_representable(V, falsify=False):
    """every tabulated isotope fits the 5-bit offset field of the pack format and decodes to itself"""
    T = tables()
    Z = V.int('Z', 1, 118)
    iso = V.int('iso', 0, 400)
    dist = {z: set(i['dist']) for z, i in T['info'].items()}
    V.assume(member(Z, iso, dist))
    pc = fn_table(Z, dict(enumerate(T['pack_common'])))
    uc = fn_table(Z, dict(enumerate(T['unpack_common'])))
    field = iso - pc
    V.prove(s_and(field >= 1, field <= (31 if not falsify else 20)), 'isotope offset fits the 5-bit field (1..31)')
    V.prove(uc + field == iso, 'decoder restores the isotope from the field')
    V.observe('n', 1)


def h_atomic_mass(V):
    T = tables()
    Z = V.int('Z', 1, 118)
    z = int(Z)
    cls = T['classes'][z][0]
    keys = sorted(T['info'][z]['dist'])
    k = V.int('k', -1, len(keys) - 1)
    ki = int(k)
    a = cls()
    if ki >= 0:
        a.isotope = keys[ki]           # the real setter validates against the abundance table
    m = a.atomic_mass
    V.prove(isinstance(m, float) and m > 0, 'atomic mass is computable and positive', {'Z': z, 'isotope': a.isotope})
    if ki < 0:
        lo, hi = min(T['info'][z]['mass'].values()), max(T['info'][z]['mass'].values())
        V.prove(lo - 1e-6 <= m <= hi + 1e-6 or abs(sum(T['info'][z]['dist'].values()) - 1) > 1e-3,
                'average mass lies between the lightest and heaviest isotope', {'Z': z, 'mass': m})
    V.observe('m', round(m, 4))


def h_isotope_setter(V):
    """setter accepts exactly the tabulated isotopes"""
    T = tables()
    Z = V.int('Z', 1, 118)
    z = int(Z)
    cls = T['classes'][z][0]
    keys = T['info'][z]['dist']
    lo, hi = min(keys), max(keys)
    iso = V.int('iso', lo - 2, hi + 2)
    a = cls()
    try:
        a.isotope = int(iso)
        ok = True
    except ValueError:
        ok = False
    V.prove(ok == (int(iso) in keys), 'isotope setter accepts exactly the tabulated isotopes', {'Z': z})
    V.observe('ok', ok)


def h_valence_rules(V):
    T = tables()
    Z = V.int('Z', 1, 118)
    z = int(Z)
    cls = T['classes'][z][0]
    a = cls()
    rules = a._compiled_valence_rules
    V.prove(hasattr(rules, 'keys') and all(isinstance(k, tuple) and len(k) == 3 for k in rules),
            'valence rules compile', {'Z': z})
    sat = a._compiled_saturation_rules
    V.prove(isinstance(sat, (list, tuple)), 'saturation rules compile', {'Z': z})
    # every common valence gives a rule for the neutral non-radical atom
    for v in a._common_valences:
        V.prove((0, False, v) in rules, 'common valence present in the compiled rules', {'Z': z, 'valence': v})
    V.observe('n', len(rules))


def h_matcher_bits(V, falsify=False, zlo=1, zhi=118):
    """real _cython_compiled_structure on two isolated atoms of one element with independent symbolic attributes:
    all fields fit 64 bits and the attribute word is injective (no tabulated isotope/charge/H collides or overflows)"""
    T = tables()
    Z = V.int('Z', zlo, zhi)
    z = int(Z)
    cls = T['classes'][z][0]
    keys = {z: set(T['info'][z]['dist'])}
    attrs = []
    for t in ('a', 'b'):
        has_iso = V.bool(t + '_has_iso')
        iso = V.wint(t + '_iso', 0, 400)        # python ints as wide bit-vectors: the code shifts by them
        V.assume(member(z, iso, keys))
        charge = V.wint(t + '_charge', -4, 4)
        h = V.wint(t + '_h', 0, 4 if not falsify else 40)
        rad = V.bool(t + '_rad')
        attrs.append((has_iso, iso, charge, h, rad))
    atoms = []
    for has_iso, iso, charge, h, rad in attrs:
        a = object.__new__(cls)
        a._isotope = iso if has_iso else None          # forks on has_iso
        a._charge = charge
        a._is_radical = rad
        a._implicit_hydrogens = h
        a._explicit_hydrogens = 0
        a._stereo = None
        a._neighbors = 0
        a._heteroatoms = 0
        a._hybridization = 1
        a._ring_sizes = set()
        a._in_ring = False
        atoms.append(a)
    fields = compiled_structure_fields(atoms, {})
    for f in fields['atoms']:
        for name in ('v1', 'v2', 'v3', 'v4'):
            v = f[name]
            V.prove(v < (1 << 64) if not is_sym(v) else v < (1 << 64), 'matcher word fits 64 bits', {'Z': z, 'word': name})
    (ha, ia, ca, hha, ra), (hb, ib, cb, hhb, rb) = attrs
    same_bits = fields['atoms'][0]['v3'] == fields['atoms'][1]['v3']
    same_attrs = s_and(ha == hb, implies(s_and(ha, hb), ia == ib), ca == cb, hha == hhb, ra == rb)
    V.prove(implies(same_bits, same_attrs), 'attribute word distinguishes every isotope / charge / hydrogen / radical '
            'state of the element', {'Z': z})
    V.observe('Z', z)


def h_matcher_isotopes(V, zlo=1, zhi=118):
    """every tabulated isotope x radical state, as atom and as query: the compiled matcher (interpreted from the .pyx)
    and the reference comparison agree, i.e. the isotope field of the bit layout holds every tabulated isotope"""
    from checks.c09 import _both, _mk_mol, _mk_query
    import chython.periodictable as pt
    T = tables()
    Z = V.int('Z', zlo, zhi)
    z = int(Z)
    name = T['info'][z]['name']
    keys = sorted(T['info'][z]['dist'])
    a = getattr(pt, name)()
    a._neighbors = a._heteroatoms = 0
    a._hybridization = 1
    a._ring_sizes = set()
    a._in_ring = False
    a._implicit_hydrogens = 0
    a._explicit_hydrogens = 0
    ai = V.wint('a_iso', 0, 400)
    V.assume(s_or(*[ai == k for k in keys]))
    a._isotope = ai if V.bool('a_has_iso') else None
    a._is_radical = V.bool('a_rad')
    q = getattr(pt, 'Query' + name)()
    qi = V.wint('q_iso', 0, 400)
    V.assume(s_or(qi == 0, *[qi == k for k in keys]))
    q._isotope = qi
    q._is_radical = V.bool('q_rad')
    fast, slow = _both(_mk_query({1: q}, {}), _mk_mol({1: a}, {}))
    V.prove(fast == slow, 'every tabulated isotope is representable in the matcher layout (compiled = reference)',
            {'Z': z, 'symbol': name, 'fast': fast, 'slow': slow})
    V.observe('n', len(fast))


HARNESSES = {
    'matcher_isotopes': h_matcher_isotopes,
    'numbering': h_numbering, 'symbol_number': h_symbol_number, 'isotope_keys': h_isotope_keys,
    'reference_isotope': h_reference_isotope, 'codec_reference': h_codec_reference,
    'pack_representable': h_pack_representable, 'atomic_mass': h_atomic_mass, 'isotope_setter': h_isotope_setter,
    'valence_rules': h_valence_rules, 'matcher_bits': h_matcher_bits,
}


def finding_key(job, failure):
    k = f"{job['harness']}:{failure['label']}"
    if 'Z' in failure['model'] and job['harness'] in ('reference_isotope', 'atomic_mass', 'matcher_bits',
                                                      'symbol_number', 'valence_rules', 'isotope_setter', 'matcher_isotopes'):
        k += f":Z={failure['model']['Z']}"
    return k


def jobs(tier):
    J = [
        {'harness': 'numbering', 'budget_s': 60},
        {'harness': 'symbol_number', 'budget_s': 120, 'max_failures': 300},
        {'harness': 'symbol_number', 'params': {'falsify': True}, 'twin': True, 'budget_s': 120},
        {'harness': 'isotope_keys', 'budget_s': 120},
        {'harness': 'isotope_keys', 'params': {'falsify': True}, 'twin': True, 'budget_s': 120},
        {'harness': 'reference_isotope', 'budget_s': 120, 'max_failures': 300},
        {'harness': 'codec_reference', 'budget_s': 120},
        {'harness': 'codec_reference', 'params': {'falsify': True}, 'twin': True, 'budget_s': 120},
        {'harness': 'pack_representable', 'budget_s': 120},
        {'harness': 'pack_representable', 'params': {'falsify': True}, 'twin': True, 'budget_s': 120},
        {'harness': 'atomic_mass', 'budget_s': 300, 'max_failures': 300, 'validate_every': 10},
        {'harness': 'valence_rules', 'budget_s': 300, 'max_failures': 300},
        {'harness': 'matcher_bits', 'params': {'falsify': True, 'zlo': 6, 'zhi': 6}, 'twin': True, 'budget_s': 600,
         'max_failures': 1, 'validate': False},
    ]
    for lo in range(1, 119, 8):
        J.append({'harness': 'matcher_isotopes', 'params': {'zlo': lo, 'zhi': min(118, lo + 7)}, 'budget_s': 900,
                  'max_failures': 300, 'validate_every': 16})
        J.append({'harness': 'matcher_bits', 'params': {'zlo': lo, 'zhi': min(118, lo + 7)}, 'budget_s': 600,
                  'max_failures': 300, 'validate_every': 16})
    if tier == 'thorough':
        J.append({'harness': 'isotope_setter', 'budget_s': 600, 'max_failures': 300, 'validate_every': 20})
    return J
