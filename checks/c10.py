"""C10 Binary pack format: lossless round trip, stable published layout."""
import os
import time
import zipfile
import zlib

import z3

from vlib import cysym, packref, minisym
from vlib.cysym import CVal, CArray, Ptr, SymFP, F64
from vlib.minisym import SymBool, SymBV, s_and, s_or, s_not, s_iff, implies, is_sym, WIDE

PROPERTY = 'C10'

META = {
    'functions_encoded': [
        'chython/containers/_pack_v2.pyx: pack, double_to_float16 (interpreted from the current source by vlib/cysym.py)',
        'chython/containers/_unpack_v0v2.pyx: unpack, double_from_bytes (same)',
        'chython/containers/molecule.py: MoleculeContainer.pack, unpack, pack_len',
        'chython/containers/reaction.py: ReactionContainer.pack, unpack, pack_len; chython/containers/__init__.py: unpach',
    ],
    'bounds': {
        'quick': 'symbolic: 1-3 atom shapes (path, star, triangle; 0-3 bonds) with every atom number (12 bit, pairwise distinct), '
                 'isotope field, stereo, H 0..6/None, charge -4..4, radical, bond order 1..4/8, cis/trans entry and the '
                 'coordinate mantissas symbolic; half-float codec over every finite double (one path per binade); reaction '
                 'framing for 0..2 molecules per role; concrete: first 640 published packs',
        'thorough': 'shapes up to 5 atoms / 9 bonds incl. a 15-neighbour star count check; role counts 0..3; all 4200 packs',
    },
    'outside_claim': ['molecules larger than the listed shapes symbolically (only concretely through the corpus)', 'zlib',
                      'NaN / infinite coordinates', 'the MDL reference-isotope table of my decoder is a copy of the pinned '
                      'tree (regression anchor), its agreement with the element classes is decided under C18'],
    'stubs': ['pack_roundtrip: double_to_float16 / double_from_bytes replaced by an arbitrary 16-bit pattern per coordinate (the codec itself is decided by float16 and half_decode over all doubles / all patterns)', 'MoleculeContainer / {} inside the interpreted unpack replaced by order-preserving association lists so '
              'that symbolic atom numbers are not hashed', 'elements[Z] realises Z over a stated small set per atom'],
    'assumptions': ['Cython semantics as implemented by vlib/cysym.py (C integer promotion, truncation, checked '
                    'Python-int -> C conversions, IEEE doubles via z3 Float64)'],
}


# ---------------------------------------------------------------------------------------------- symbolic containers

class SymDict:
    """insertion-ordered association list usable with symbolic keys (lookup by identity, then by forking equality)"""

    def __init__(self, items=()):
        self._items = list(items)

    def items(self):
        return list(self._items)

    def keys(self):
        return [k for k, _ in self._items]

    def values(self):
        return [v for _, v in self._items]

    def __iter__(self):
        return iter(self.keys())

    def __len__(self):
        return len(self._items)

    def __bool__(self):
        return bool(self._items)

    def _find(self, k):
        for i, (kk, _) in enumerate(self._items):
            if kk is k:
                return i
        for i, (kk, _) in enumerate(self._items):
            if kk == k:          # forks when symbolic
                return i
        return None

    def __getitem__(self, k):
        i = self._find(k)
        if i is None:
            raise KeyError(k)
        return self._items[i][1]

    def __setitem__(self, k, v):
        i = self._find(k)
        if i is None:
            self._items.append((k, v))
        else:
            self._items[i] = (self._items[i][0], v)

    def __contains__(self, k):
        return self._find(k) is not None


class FakeAtom:
    pass


class FakeBond:
    pass


class FakeMol:
    def __init__(self):
        self._atoms = SymDict()
        self._bonds = SymDict()
        self._stereo_cis_trans_terminals = SymDict()
        self._cis_trans_count = 0


class Opaque:
    """a double whose only observable is the half pattern the (stubbed) encoder stores for it"""

    def __init__(self, bits):
        self.bits = bits


def stub_double_to_float16(x, p):
    b = x.bits
    if is_sym(b):
        p[0] = CVal(z3.Extract(15, 8, b.e), 'unsigned char')
        p[1] = CVal(z3.Extract(7, 0, b.e), 'unsigned char')
    else:
        p[0] = (b >> 8) & 0xff
        p[1] = b & 0xff


def stub_double_from_bytes(a, b):
    return ('half', a, b)


SHAPES = {
    'atom': (1, []),
    'pair': (2, [(0, 1)]),
    'path3': (3, [(0, 1), (1, 2)]),
    'tri': (3, [(0, 1), (1, 2), (0, 2)]),
    'star4': (4, [(0, 1), (0, 2), (0, 3)]),
    'path4': (4, [(0, 1), (1, 2), (2, 3)]),
    'k4': (4, [(0, 1), (0, 2), (0, 3), (1, 2), (1, 3), (2, 3)]),
    'bicyc5': (5, [(0, 1), (1, 2), (2, 3), (3, 4), (4, 0), (0, 2), (1, 3), (2, 4)]),
    'w5': (5, [(0, 1), (0, 2), (0, 3), (0, 4), (1, 2), (2, 3), (3, 4), (4, 1), (1, 3)]),
}


def ex(v, hi, lo):
    """bit field hi..lo of a python-int stand-in (wide bit-vector proxy) or of a plain int"""
    if is_sym(v):
        return z3.Extract(hi, lo, v.e)
    return (int(v) >> lo) & ((1 << (hi - lo + 1)) - 1)


def _half_spec_bits(x):
    """published rule for a symbolic double: IEEE half by truncation toward zero; 0 when zero, too small or too large"""
    ax = z3.fpAbs(x.e)
    zero = z3.Or(z3.fpIsZero(x.e), z3.fpGEQ(ax, z3.FPVal(65536.0, F64)), z3.fpLT(ax, z3.FPVal(2.0 ** -25, F64)))
    h = z3.fpToIEEEBV(z3.fpToFP(z3.RTZ(), x.e, z3.Float16()))
    return z3.If(zero, z3.BitVecVal(0, 16), h)


PATTERNS = [(True, True, False, True), (False, None, True, False), (True, False, False, False), (False, None, False, True)]


def build_symbolic_molecule(V, shape, z_sets, free=(0,)):
    """FakeMol with symbolic fields + the same molecule as records for my encoder"""
    n, edges = SHAPES[shape]
    mol = FakeMol()
    numbers = [V.wint(f'n{i}', 0, 4095) for i in range(n)]
    for i in range(n):
        for j in range(i):
            V.assume(numbers[i] != numbers[j])
    adj = {i: [] for i in range(n)}
    bond_objs = {}
    for k, (i, j) in enumerate(edges):
        b = FakeBond()
        o = V.wint(f'o{k}', 1, 8)
        V.assume(s_or(o == 1, o == 2, o == 3, o == 4, o == 8))
        b._order = o
        has_ct = V.bool(f'ct{k}') if (shape in ('pair', 'path3', 'path4') and k == 0) else False
        if has_ct:            # forks: stereo is None / bool
            b._stereo = bool(V.bool(f'cts{k}'))
        else:
            b._stereo = None
        bond_objs[(i, j)] = bond_objs[(j, i)] = b
        adj[i].append(j)
        adj[j].append(i)
    records = []
    ct = []
    for i in range(n):
        a = FakeAtom()
        zs = z_sets[i] if i < len(z_sets) else z_sets[-1]
        z = V.choice(f'z{i}', list(zs)) if len(zs) > 1 else zs[0]
        a.atomic_number = z
        # None-ness / truth of the optional fields forks in the code under test: every combination on the `free`
        # atoms, a fixed pattern (varying with the position) on the others; the numeric fields stay symbolic everywhere
        pat = PATTERNS[i % len(PATTERNS)]
        has_iso = V.bool(f'hasiso{i}') if i in free else pat[0]
        isof = V.wint(f'isof{i}', 1, 31)                     # the 5-bit field; isotope = reference - 16 + field
        ref = packref.MDL_REFERENCE[z]
        a._isotope = (isof + (ref - 16)) if has_iso else None
        skind = V.choice(f'st{i}', [None, False, True]) if i in free else pat[1]
        a._stereo = skind
        h_none = V.bool(f'hnone{i}') if i in free else pat[2]
        h = V.wint(f'h{i}', 0, 6)
        a._implicit_hydrogens = None if h_none else h
        ch = V.wint(f'ch{i}', -4, 4)
        a._charge = ch
        rad = V.bool(f'rad{i}') if i in free else pat[3]
        a._is_radical = rad                                   # `if py_atom._is_radical` forks
        # coordinates: opaque doubles; the half-float codec is stubbed here (decided separately by float16 /
        # half_decode) by an arbitrary 16-bit pattern per coordinate, so only the placement of the bytes is at stake
        x = Opaque(V.bv(f'x16_{i}', 16))
        y = Opaque(V.bv(f'y16_{i}', 16))
        a.x, a.y = x, y
        mol._atoms[numbers[i]] = a
        nb = SymDict()
        for j in adj[i]:
            nb[numbers[j]] = bond_objs[(i, j)]
        mol._bonds[numbers[i]] = nb
        ncount = len(adj[i])
        if skind is None:
            tetra = allene = 0
        elif ncount == 2:
            tetra, allene = 0, (3 if skind else 2)
        else:
            tetra, allene = (3 if skind else 2), 0
        rec = {
            'number': ex(numbers[i], 11, 0), 'z': z,
            'neighbours': [(ex(numbers[j], 11, 0), ex(bond_objs[(i, j)]._order - 1, 2, 0))
                           for j in adj[i]],
            'neighbour_index': list(adj[i]),
            'tetra': tetra, 'allene': allene,
            'isotope': (ex(isof, 4, 0) if has_iso else 0),
            'x16': x.bits.e if is_sym(x.bits) else x.bits,
            'y16': y.bits.e if is_sym(y.bits) else y.bits,
            'h': 7 if h_none else ex(h, 2, 0),
            'charge4': ex(ch + 4, 3, 0),
            'radical': z3.If(rad.e, z3.BitVecVal(1, 1), z3.BitVecVal(0, 1)) if is_sym(rad) else int(rad),
        }
        records.append(rec)
    # cis/trans records in the order the labelled bonds are first met
    seen = set()
    for i in range(n):
        seen.add(i)
        for j in adj[i]:
            if j not in seen and bond_objs[(i, j)]._stereo is not None:
                tn = V.wint(f'tn{i}_{j}', 0, 4095)
                tm = V.wint(f'tm{i}_{j}', 0, 4095)
                mol._stereo_cis_trans_terminals[numbers[i]] = (tn, tm)
                ct.append((ex(tn, 11, 0), ex(tm, 11, 0), int(bond_objs[(i, j)]._stereo),
                           (tn, tm, bond_objs[(i, j)]._stereo)))
    mol._cis_trans_count = len(ct)
    return mol, records, ct, numbers, adj, bond_objs


def _unpack_ns():
    """interpreted decoder with its Python-object sinks replaced by association lists"""
    ns = cysym.load(cysym.PYX['unpack'], {})

    class StubMol:
        def __init__(self):
            self._atoms = SymDict()
            self._bonds = SymDict()
    ns['MoleculeContainer'] = StubMol
    ns['__newdict__'] = SymDict
    return ns


_NS = {}


def ns_pack():
    if 'pack' not in _NS:
        _NS['pack'] = cysym.load(cysym.PYX['pack'], {})
    return _NS['pack']


def ns_pack_stub():
    if 'pack_stub' not in _NS:
        ns = cysym.load(cysym.PYX['pack'], {})
        ns['double_to_float16'] = stub_double_to_float16
        _NS['pack_stub'] = ns
    return _NS['pack_stub']


def ns_unpack_stub():
    if 'unpack_stub' not in _NS:
        ns = _unpack_ns()
        ns['double_from_bytes'] = stub_double_from_bytes
        _NS['unpack_stub'] = ns
    return _NS['unpack_stub']


def ns_unpack_sym():
    if 'unpack_sym' not in _NS:
        _NS['unpack_sym'] = _unpack_ns()
    return _NS['unpack_sym']


def _eq(a, b):
    """symbolic/plain equality of two unboxed values (None-aware)"""
    if a is None or b is None:
        return a is None and b is None
    return a == b


def h_pack_roundtrip(V, shape='pair', z_sets=((6, 8),), free=(0,), falsify=False):
    mol, records, ct, numbers, adj, bond_objs = build_symbolic_molecule(V, shape, z_sets, tuple(free))
    packed = ns_pack_stub()['pack'](mol)
    cells = packed.cells if isinstance(packed, cysym.SymBytes) else [CVal(b, 'unsigned char') for b in packed]
    # (ii) byte for byte against my encoder of the published layout
    mine = packref.encode_v2(records, [(a, b, s) for a, b, s, _ in ct])
    V.prove(len(mine) == len(cells), 'pack length equals the published layout length', {'shape': shape})
    for k, (c, m) in enumerate(zip(cells, mine)):
        if falsify and k == 6:
            m = (m + 1) if not isinstance(m, z3.ExprRef) else m + 1
        cv = c.bv() if c.sym else c.v
        if isinstance(cv, int) and isinstance(m, int):
            V.prove(cv == m, f'byte {k} equals the published layout', {'shape': shape, 'byte': k})
        else:
            V.prove(SymBool((cv if isinstance(cv, z3.ExprRef) else z3.BitVecVal(cv, 8)) ==
                            (m if isinstance(m, z3.ExprRef) else z3.BitVecVal(m, 8))),
                    f'byte {k} equals the published layout', {'shape': shape, 'byte': k})
    # (i) decode with the real decoder and compare field by field, in order
    data = CArray('unsigned char', data=[c.v for c in cells])
    m2, ct2, size = ns_unpack_stub()['unpack'](data)
    V.prove(_eq(size, len(cells)), 'decoder reports the pack length')
    items2 = m2._atoms.items()
    V.prove(len(items2) == len(numbers), 'same number of atoms')
    for i, ((k2, a2), (k1, a1)) in enumerate(zip(items2, mol._atoms.items())):
        V.prove(k2 == k1, 'atom numbers and order preserved', {'atom': i})
        V.prove(type(a2).__name__ == packref_symbol(a1.atomic_number), 'element preserved', {'atom': i})
        V.prove(_eq(a2._isotope, a1._isotope), 'isotope preserved', {'atom': i})
        V.prove(_eq(a2._charge, a1._charge), 'charge preserved', {'atom': i})
        V.prove(s_iff(a2._is_radical, a1._is_radical), 'radical flag preserved', {'atom': i})
        V.prove(_eq(a2._implicit_hydrogens, a1._implicit_hydrogens), 'hydrogen count (incl. unknown) preserved', {'atom': i})
        V.prove(a2._stereo is a1._stereo, 'atom stereo label preserved', {'atom': i})
        for c2, c1, nm in ((a2._xy.x, a1.x, 'x'), (a2._xy.y, a1.y, 'y')):
            hi, lo = c2[1], c2[2]                 # what the decoder handed to double_from_bytes (python ints)
            got = (hi << 8) | lo
            want = SymBV(z3.ZeroExt(WIDE - 16, c1.bits.e), True) if is_sym(c1.bits) else c1.bits
            V.prove(got == want, 'the stored half pattern of each coordinate comes back to the decoder',
                    {'atom': i, 'axis': nm})
        nb2 = m2._bonds[k2].items()
        nb1 = mol._bonds[k1].items()
        V.prove(len(nb2) == len(nb1), 'neighbour count preserved', {'atom': i})
        for (m2k, b2), (m1k, b1) in zip(nb2, nb1):
            V.prove(m2k == m1k, 'neighbour order preserved', {'atom': i})
            V.prove(_eq(b2._order, b1._order), 'bond order preserved', {'atom': i})
    V.prove(len(ct2) == len(ct), 'cis/trans entries preserved')
    for (n2, m2_, s2), (_, _, _, (tn, tm, s1)) in zip(ct2, ct):
        V.prove(s_and(n2 == tn, m2_ == tm), 'cis/trans terminal pair preserved')
        V.prove(s2 is s1, 'cis/trans sign preserved')
    # back references are shared bond objects
    for k2, nb in m2._bonds.items():
        for mk, b in nb.items():
            V.prove(m2._bonds[mk][k2] is b, 'both directions of a bond are one object')
    V.observe('len', len(cells))


def packref_symbol(z):
    from vlib.refsmiles import ELEMENTS
    return ELEMENTS[int(z) - 1]


def h_float16(V, falsify=False, elo=None, ehi=None, neg=None):
    """real double_to_float16 then double_from_bytes on every finite double (sharded by sign and exponent range)"""
    nsp, nsu = ns_pack(), ns_unpack_sym()
    x = V.fp('x')
    if isinstance(x, SymFP):
        bits = z3.fpToIEEEBV(x.e)
        ex = z3.ZeroExt(5, z3.Extract(62, 52, bits)) - 1023       # unbiased exponent as a 16-bit signed value
        if elo is not None:
            V.assume(SymBool(ex >= elo))
        if ehi is not None:
            V.assume(SymBool(ex <= ehi))
        if neg is not None:
            V.assume(SymBool(z3.Extract(63, 63, bits) == (1 if neg else 0)))
    buf = CArray('unsigned char', 2)
    nsp['double_to_float16'](x, Ptr(buf, 0, 'unsigned char', {}))
    a, b = buf[0], buf[1]
    spec_bits = _half_spec_bits(x) if isinstance(x, SymFP) else packref.half_bits_of(x)
    if isinstance(x, SymFP):
        got_bits = z3.Concat(a.bv(), b.bv())
        if falsify:
            spec_bits = z3.fpToIEEEBV(z3.fpToFP(z3.RNE(), x.e, z3.Float16()))
        V.prove(SymBool(got_bits == spec_bits), 'stored half pattern = truncation toward zero (0 outside the range)')
    else:
        V.prove(((int(a) << 8) | int(b)) == spec_bits, 'stored half pattern = truncation toward zero (0 outside the range)')
    # decoding of every stored pattern is the subject of half_decode: the round trip follows by composition
    V.observe('bits', [a, b])


def h_half_decode(V, elo=0, ehi=30):
    """double_from_bytes for every 16-bit pattern that is not inf/nan equals the IEEE half value"""
    nsu = ns_unpack_sym()
    a = V.bv('a', 8)
    b = V.bv('b', 8)
    if is_sym(a):
        ef = z3.Extract(6, 2, a.e)
        V.assume(SymBool(z3.And(z3.UGE(ef, elo), z3.ULE(ef, ehi))))
    ca = CVal(a.e, 'unsigned char') if is_sym(a) else CVal(a, 'unsigned char')
    cb = CVal(b.e, 'unsigned char') if is_sym(b) else CVal(b, 'unsigned char')
    if is_sym(a):
        V.assume(SymBool(z3.Extract(6, 2, a.e) != 31))
    else:
        V.assume((a >> 2) & 31 != 31)
    back = nsu['double_from_bytes'](ca, cb)
    if is_sym(a):
        want = z3.fpToFP(z3.RNE(), z3.fpBVToFP(z3.Concat(a.e, b.e), z3.Float16()), F64)
        be = back.e if isinstance(back, SymFP) else z3.FPVal(back, F64)
        V.prove(SymBool(z3.fpEQ(be, want)), 'decoded double equals the IEEE half value')
    else:
        V.prove(back == packref.half_value((a << 8) | b), 'decoded double equals the IEEE half value')
    V.observe('back', back)


def h_v0_orders(V, nbonds=5):
    """version-0 bond order block (5 orders per 2 bytes) decodes per its layout: chain of nbonds+1 atoms"""
    n = nbonds + 1
    w = packref.BitWriter()
    w.put(0, 8)
    w.put(n, 12)
    w.put(0, 12)
    for i in range(n):
        w.put(i + 1, 12)
        w.put((1 if i in (0, n - 1) else 2) if n > 1 else 0, 4)
        w.put(0, 4)
        w.put(0, 5)
        w.put(6, 7)
        w.put(0, 32)
        w.put(0, 3)
        w.put(4, 4)
        w.put(0, 1)
    for i in range(n):
        if i > 0:
            w.put(i, 12)
        if i < n - 1:
            w.put(i + 2, 12)
    orders = []
    k = 0
    while k < nbonds:
        w.put(0, 1)
        for j in range(5):
            if k + j < nbonds:
                o = V.bv(f'o{k + j}', 3)
                orders.append(o)
                w.put(o.e if is_sym(o) else o, 3)
            else:
                w.put(0, 3)
        k += 5
    data = w.bytes()
    arr = CArray('unsigned char', data=data)
    m2, ct2, size = ns_unpack_sym()['unpack'](arr)
    V.prove(_eq(size, len(data)), 'decoder reports the version-0 pack length')
    keys = m2._atoms.keys()
    for i, o in enumerate(orders):
        b = m2._bonds[keys[i]][keys[i + 1]]
        if is_sym(o):
            want = z3.ZeroExt(WIDE - 3, o.e) + 1
            V.prove(SymBool(b._order.e == want) if is_sym(b._order) else SymBool(z3.BitVecVal(b._order, WIDE) == want),
                    'version-0 bond order decoded per its layout', {'bond': i})
        else:
            V.prove(b._order == o + 1, 'version-0 bond order decoded per its layout', {'bond': i})
    V.observe('n', len(orders))


# ---------------------------------------------------------------------------------------------- python wrappers

def _install():
    cysym.install()


def h_limits(V):
    """MoleculeContainer.pack(check=True) rejects exactly numbers > 4095 and > 15 neighbours"""
    import chython
    from chython import MoleculeContainer
    _install()
    num = V.choice('number', [1, 255, 256, 4095, 4096, 5000])
    nnb = V.choice('neighbours', [0, 1, 14, 15, 16])
    m = MoleculeContainer()
    m.add_atom('Fe', num, _skip_calculation=True)
    base = 1 if num > 100 else 1000
    for k in range(nnb):
        t = m.add_atom('C', base + k + 1, _skip_calculation=True)
        m.add_bond(num, t, 8, _skip_calculation=True)
    m.calc_labels()
    try:
        d = m.pack()
        ok = True
    except ValueError:
        ok = False
    V.prove(ok == (num <= 4095 and nnb <= 15), 'limits check rejects exactly what the format cannot hold',
            {'number': num, 'neighbours': nnb})
    if ok:
        m2 = MoleculeContainer.unpack(d)
        V.prove(list(m2._atoms) == list(m._atoms) and {n: list(x) for n, x in m2._bonds.items()} ==
                {n: list(x) for n, x in m._bonds.items()}, 'boundary molecule round trips')
        V.prove(MoleculeContainer.pack_len(d) == len(m), 'pack_len reports the atom count')
    V.observe('ok', ok)


_SMALL = ['C', 'CO', 'C=O', '[Na+]', 'c1ccccc1', 'C[C@H](N)O', 'F/C=C/Cl', '[13CH4]', '[O-]C=O']


def h_reaction_framing(V, maxn=2, falsify=False):
    import chython
    from chython import ReactionContainer, MoleculeContainer
    _install()
    nr = V.int('reactants', 0, maxn)
    ng = V.int('reagents', 0, maxn)
    npd = V.int('products', 0, maxn)
    nr, ng, npd = int(nr), int(ng), int(npd)
    V.assume(nr + ng + npd > 0)
    pool = [chython.smiles(s) for s in _SMALL]
    it = iter(pool)
    r = ReactionContainer([next(it) for _ in range(nr)], [next(it) for _ in range(npd)], [next(it) for _ in range(ng)])
    d = r.pack()
    back = ReactionContainer.unpack(d)
    want = (nr, ng, npd if not falsify else npd + 1)
    V.prove((len(back.reactants), len(back.reagents), len(back.products)) == want,
            'unpack restores the partition into roles', {'roles': [nr, ng, npd]})
    V.prove([str(m) for m in back.reactants] == [str(m) for m in r.reactants] and
            [str(m) for m in back.reagents] == [str(m) for m in r.reagents] and
            [str(m) for m in back.products] == [str(m) for m in r.products], 'molecules restored in their roles',
            {'roles': [nr, ng, npd]})
    pl = ReactionContainer.pack_len(d)
    V.prove(tuple(map(list, pl)) == ([len(m) for m in r.reactants], [len(m) for m in r.reagents],
                                     [len(m) for m in r.products]), 'pack_len reports the true atom counts per role',
            {'roles': [nr, ng, npd], 'got': [list(x) for x in pl]})
    u = chython.unpack(d)
    V.prove(isinstance(u, ReactionContainer) and str(u) == str(r), 'generic unpack recognises a reaction pack')
    V.observe('roles', [nr, ng, npd])


def h_molecule_api(V):
    """real MoleculeContainer.pack / unpack / pack_len / chython.unpack on seeds (interpreted extension installed)"""
    import chython
    from chython import MoleculeContainer
    _install()
    smi = V.choice('seed', _SMALL + ['C[C@@H]1CC[C@H](O)O1', 'FC=[C@]=CCl', 'CC(C)(C)C', '[Fe+2].[Cl-].[Cl-]', 'C/C=C/C=C\\F', 'C/C=C=C=C/C', 'C/C=C=C=C\\F'])
    m = chython.smiles(smi)
    comp = bool(V.bool('compressed'))
    d = m.pack(compressed=comp)
    m2 = MoleculeContainer.unpack(d, compressed=comp)
    V.prove(list(m2._atoms) == list(m._atoms), 'atom numbers and order')
    V.prove(all(list(m2._bonds[n]) == list(m._bonds[n]) for n in m._atoms), 'neighbour order')
    V.prove(all(m2._atoms[n] == m._atoms[n] and m2._atoms[n].implicit_hydrogens == m._atoms[n].implicit_hydrogens and
                m2._atoms[n].stereo == m._atoms[n].stereo for n in m._atoms), 'atom attributes and stereo')
    V.prove(all(m2._bonds[n][k].order == b.order and m2._bonds[n][k].stereo == b.stereo
                for n, k, b in m.bonds()), 'bond orders and cis/trans labels')
    V.prove(str(m2) == str(m) and m2 == m, 'canonical string preserved')
    V.prove(MoleculeContainer.pack_len(d, compressed=comp) == len(m), 'pack_len')
    u = chython.unpack(d, compressed=comp)
    V.prove(str(u) == str(m), 'generic unpack recognises a molecule pack')
    V.prove(bytes(m) == m.pack(), '__bytes__ is pack()')
    V.observe('len', len(d))


# ---------------------------------------------------------------------------------------------- published packs

def d_published(lo=0, hi=4200):
    """concrete: published packs decode (interpreted decoder) to the molecule of the same CSV row; my decoder of the
    published layout reads the same fields; re-packing reproduces the published bytes"""
    import csv
    from vlib import bootstrap  # noqa
    import chython
    from chython import MoleculeContainer
    _install()
    t0 = time.perf_counter()
    z = zipfile.ZipFile('/repo/pach/SI.zip')
    rows = list(csv.reader(open('/repo/pach/lipophilicity.csv')))[1:]
    failures = []
    n = gaps = 0
    samples = []
    for i in range(lo, min(hi, len(rows))):
        raw = zlib.decompress(z.read(f'data/{i}.pach'))
        mol = MoleculeContainer.unpack(raw, compressed=False)
        n += 1
        ver, atoms, bonds, ct, length = packref.decode(raw)
        ok = length == len(raw) and [a['number'] for a in atoms] == list(mol._atoms)
        for a in atoms:
            m = mol._atoms[a['number']]
            ok = ok and m.atomic_number == a['z'] and m.charge == a['charge4'] - 4 and m.is_radical == bool(a['radical']) \
                and (m.implicit_hydrogens if m.implicit_hydrogens is not None else 7) == a['h'] \
                and list(mol._bonds[a['number']]) == a['neighbours'] \
                and (m.isotope or 0) == (a['isotope'] and packref.MDL_REFERENCE[a['z']] - 16 + a['isotope']) \
                and m.x == packref.half_value(a['x16']) and m.y == packref.half_value(a['y16'])
        for k, o in bonds.items():
            nn, mm = tuple(k)
            ok = ok and mol._bonds[nn][mm].order == o
        if not ok:
            failures.append({'label': 'published pack field mismatch between decoder and layout', 'model': {'index': i}})
            continue
        if ver == 2 and mol.pack(compressed=False) != raw:
            failures.append({'label': 'published pack is not reproduced by re-packing', 'model': {'index': i}})
            continue
        ref = chython.smiles(rows[i][2])
        ref.kekule(); ref.thiele()
        m2 = mol.copy()
        m2.kekule(); m2.thiele()
        if str(m2) != str(ref):
            # documented C01 gap: the same constitution with stereo labels on pseudo-asymmetric ring centres
            a = m2.copy(); b = ref.copy()
            a.clean_stereo(); b.clean_stereo()
            if str(a) == str(b) and sum(x.stereo is not None for _, x in m2.atoms()) == \
                    sum(x.stereo is not None for _, x in ref.atoms()):
                gaps += 1
            else:
                failures.append({'label': 'published pack decodes to a different structure than its CSV row',
                                 'model': {'index': i}, 'info': {'pack': str(m2), 'csv': str(ref)}})
                continue
        if len(samples) < 2:
            samples.append({'model': {'index': i}, 'observed': [['smiles', str(mol)], ['bytes', len(raw)]]})
    return {'paths': n, 'assertions': n * 3, 'validated': n, 'failures': failures[:20], 'inconclusive': [],
            'samples': samples, 'exhaustive': True, 'notes': [f'{gaps} rows differ only by the documented '
            'pseudo-asymmetric stereo gap'], 'decisions': 0, 'realisations': 0, 'queries': 0, 'solver_s': 0.0,
            'aborted': 0, 'wall_s': time.perf_counter() - t0}


def r_published(failure, lo=0, hi=4200):
    i = failure['model']['index']
    st = d_published(i, i + 1)
    return any(f['label'] == failure['label'] for f in st['failures'])


HARNESSES = {
    'pack_roundtrip': h_pack_roundtrip, 'float16': h_float16, 'half_decode': h_half_decode, 'v0_orders': h_v0_orders,
    'limits': h_limits, 'reaction_framing': h_reaction_framing, 'molecule_api': h_molecule_api,
    'published': d_published,
}
REPLAY = {'published': r_published}


def finding_key(job, failure):
    k = f"{job['harness']}:{failure['label']}"
    if job['harness'] == 'reaction_framing' and 'products' in failure['model']:
        k += ':products=0' if failure['model']['products'] == 0 else ''
    if job['harness'] == 'published':
        k += f":{failure['model'].get('index')}"
    return k


def jobs(tier):
    T = tier == 'thorough'
    J = []
    # every finite double: sign x exponent ranges (below the half range, subnormal results, normal results, above)
    ranges = [(None, -26), (-25, -22), (-21, -18), (-17, -15), (-14, -11), (-10, -7), (-6, -3), (-2, 1), (2, 5), (6, 9),
              (10, 13), (14, 15), (16, None)]
    for lo, hi in ranges:
        for neg in (False, True):
            J.append({'harness': 'float16', 'params': {'elo': lo, 'ehi': hi, 'neg': neg}, 'budget_s': 900,
                      'query_timeout_ms': 120000, 'weight': 300})
    J.append({'harness': 'float16', 'params': {'falsify': True, 'elo': 0, 'ehi': 0, 'neg': False}, 'twin': True,
              'budget_s': 900, 'max_failures': 1, 'query_timeout_ms': 120000, 'validate': False})
    for lo in range(0, 31, 4):
        J.append({'harness': 'half_decode', 'params': {'elo': lo, 'ehi': min(30, lo + 3)}, 'budget_s': 600,
                  'query_timeout_ms': 120000, 'weight': 100})
    shapes = [('atom', ((1, 6, 8, 26, 92, 118),), (0,)), ('pair', ((6,), (7,)), (0,)), ('pair', ((6,), (7,)), (1,)),
              ('path3', ((6,), (8,), (7,)), (1,)), ('tri', ((6,), (7,), (8,)), (2,))]
    if T:
        shapes += [('pair', ((6, 8), (7,)), (0, 1)), ('path3', ((6,), (8,), (7,)), (0,)), ('path3', ((6,), (8,), (7,)), (2,)),
                   ('star4', ((6,), (7,), (8,), (9,)), (0,)), ('star4', ((6,), (7,), (8,), (9,)), (3,)),
                   ('path4', ((6,), (6,), (7,), (8,)), (1,)), ('k4', ((6,),), (0,)), ('bicyc5', ((6,),), (0,)),
                   ('w5', ((6,),), (4,))]
    for sh, zs, fr in shapes:
        J.append({'harness': 'pack_roundtrip', 'params': {'shape': sh, 'z_sets': [list(z) for z in zs], 'free': list(fr)},
                  'budget_s': 3000, 'validate_every': 40, 'weight': 2000, 'query_timeout_ms': 60000})
    J.append({'harness': 'pack_roundtrip', 'params': {'shape': 'pair', 'z_sets': [[6], [7]], 'free': [], 'falsify': True}, 'twin': True,
              'budget_s': 600, 'max_failures': 1, 'validate': False})
    for nb in ([1, 4, 5, 6] if not T else [1, 2, 3, 4, 5, 6, 9, 10, 11]):
        J.append({'harness': 'v0_orders', 'params': {'nbonds': nb}, 'budget_s': 300})
    J.append({'harness': 'limits', 'budget_s': 300})
    J.append({'harness': 'reaction_framing', 'params': {'maxn': 3 if T else 2}, 'budget_s': 600, 'max_failures': 50})
    J.append({'harness': 'reaction_framing', 'params': {'maxn': 1, 'falsify': True}, 'twin': True, 'budget_s': 300,
              'max_failures': 1})
    J.append({'harness': 'molecule_api', 'budget_s': 300})
    total = 4200 if T else 640
    step = total // 16 + 1
    for lo in range(0, total, step):
        J.append({'harness': 'published', 'direct': True, 'params': {'lo': lo, 'hi': min(total, lo + step)},
                  'budget_s': 1500, 'weight': 100})
    return J
