"""C12 Stereo signs are permutation-consistent and agree with an independent reading of marks and wedges."""
import z3

from vlib.minisym import SymBool, SymInt, Abort, ite, s_and, s_or, s_not, s_iff
from vlib.oracles import select, odd_permutation, xor, smiles_at_from_points, cross2, sub2, table_lookup, count_true
from vlib import refsmiles

PROPERTY = 'C12'

META = {
    'functions_encoded': [
        'chython/algorithms/stereo.py:_tetrahedron_translate, _alkene_translate (tables read from the imported module)',
        'MoleculeStereo._translate_tetrahedron_sign, _translate_cis_trans_sign, _translate_allene_sign',
        'MoleculeStereo.add_atom_stereo, add_cis_trans_stereo, add_wedge, calculate_cis_trans_from_2d',
        '_pyramid_sign, _cis_trans_sign, _allene_sign', 'MoleculeSmiles._format_atom / _format_bond (stereo marks)',
        'MoleculeStereo._wedge_map / __wedge_sign',
    ],
    'bounds': {
        'quick': 'tables: all index tuples in one query each; translate/add: every permutation and hydrogen position of '
                 '5 tetrahedral, 5 cis/trans, 3 allene seeds; geometry: all real 2-D coordinates, every wedge position and '
                 'direction, 4 tetrahedral + 3 cis/trans seeds',
        'thorough': 'same, more seeds, plus every random-order spelling of each geometric seed',
    },
    'outside_claim': ['floats are modelled as reals (rounding in sign tests is outside)',
                      'ring-closure neighbours of a stereocentre beyond the listed seeds',
                      'agreement with RDKit is exercised under C20, not here',
                      'stereogenicity oracle (fix_stereo) only on seeds with constitutionally distinct substituents'],
    'stubs': ['random() -> fresh real in [0,1) in spelling harnesses'],
    'assumptions': ['chython.smiles() is used to build the seed skeletons (checked separately under C03)'],
}

# ----------------------------------------------------------------------------------------------- tables


def h_tetra_table(V, falsify=False):
    from chython.algorithms import stereo as S
    table = S._tetrahedron_translate
    i, j, k = V.int('i', 0, 3), V.int('j', 0, 3), V.int('k', 0, 3)
    V.distinct(i, j, k)
    l = 6 - i - j - k
    present, value = table_lookup(table, (i, j, k))
    odd = odd_permutation([i, j, k, l])
    if falsify:
        odd = s_not(odd)
    V.prove(present, 'every ordered triple of distinct positions has an entry')
    V.prove(s_iff(value, odd), 'entry is True exactly for odd permutations')
    V.prove(all(len(set(t)) == 3 and all(0 <= x <= 3 for x in t) and isinstance(v, bool) for t, v in table.items())
            and len(table) == 24, 'no extra entries')
    V.observe('n', len(table))


def h_alkene_table(V, falsify=False):
    from chython.algorithms import stereo as S
    table = S._alkene_translate
    a, b = V.int('a', 0, 3), V.int('b', 0, 3)
    # positions 0,2 belong to the first end, 1,3 to the second; a key names one substituent per end in either order
    V.assume((a + b) % 2 == 1)
    present, value = table_lookup(table, (a, b))
    swaps = count_true(s_or(a == 2, b == 2), s_or(a == 3, b == 3))
    one = swaps == (0 if falsify else 1)
    V.prove(present, 'every pair naming one substituent per end has an entry')
    V.prove(s_iff(value, one), 'entry is True exactly when one end is exchanged')
    V.prove(len(table) == 8 and all((x + y) % 2 == 1 for x, y in table), 'no extra entries')
    V.observe('n', len(table))


# ----------------------------------------------------------------------------------------------- molecules

_MOLS = {}


def mol_of(smi):
    import chython
    m = _MOLS.get(smi)
    if m is None:
        m = _MOLS[smi] = chython.smiles(smi)
    return m


def stereo_centre(m):
    return next(n for n, a in m.atoms() if a.stereo is not None)


def perm(V, prefix, n):
    p = [V.int(f'{prefix}{i}', 0, n - 1) for i in range(n)]
    V.distinct(*p)
    return p


# ----------------------------------------------------------------------------------------------- tetrahedra

def _tetra_env(V, m, n, prefix):
    """symbolic neighbour order around n; returns (env list, full permutation of base indices, base)"""
    H = 1
    nbrs = list(m._bonds[n])
    heavy = [x for x in nbrs if m._atoms[x].atomic_number != H]
    hyd = [x for x in nbrs if m._atoms[x].atomic_number == H]
    if len(nbrs) == 4:
        base = heavy + hyd
        p = perm(V, prefix, 4)
        use4 = V.bool(prefix + 'len4')
        if use4:
            env = [select(x, base) for x in p]
        else:
            env = [select(x, base) for x in p[:3]]
            if hyd:
                V.assume(p[3] == 3)       # a three-atom order never names the explicit hydrogen
        return env, p, base
    base = heavy                     # implicit hydrogen: always last in both orders, parity on three
    p = perm(V, prefix, 3)
    return [select(x, base) for x in p], p, base


def h_translate_tetra(V, smi, falsify=False):
    m = mol_of(smi)
    n = stereo_centre(m)
    env, p, base = _tetra_env(V, m, n, 'p')
    ref_env = list(base)
    t = m._translate_tetrahedron_sign(n, env)
    t0 = m._translate_tetrahedron_sign(n, ref_env)
    odd = odd_permutation(p)
    if falsify:
        odd = s_not(odd)
    V.prove(s_iff((t != t0), odd), 'sign changes exactly for odd permutations of the neighbour order',
            {'smiles': smi})
    V.observe('t', t)


def h_add_read_tetra(V, smi):
    src = mol_of(smi)
    n = stereo_centre(src)
    m = src.copy()
    m._atoms[n]._stereo = None
    m.flush_cache()
    env, p, base = _tetra_env(V, m, n, 'p')
    mark = bool(V.bool('mark'))
    m.add_atom_stereo(n, env, mark)
    back = m._translate_tetrahedron_sign(n, list(base))
    V.prove(s_iff((back != mark), odd_permutation(p)),
            'configuration given for one order reads back in another order flipped exactly by parity', {'smiles': smi})
    # same object, original order: must read back unchanged
    env_c = [int(x) for x in env]
    V.prove(m._translate_tetrahedron_sign(n, env_c) == mark, 'reads back unchanged in the order it was given')
    V.observe('stereo', m._atoms[n].stereo)


# ----------------------------------------------------------------------------------------------- cis/trans, allenes

def _ends(m, path_first, path_second, first, last):
    H = 1
    a = [x for x, b in m._bonds[first].items() if x != path_first and b.order != 8]
    b = [x for x, bb in m._bonds[last].items() if x != path_second and bb.order != 8]
    return a, b


def h_translate_ct(V, smi, falsify=False):
    m = mol_of(smi)
    path = next(p for p in m.stereogenic_cumulenes if not len(p) % 2)
    first, last = path[0], path[-1]
    sa, sb = _ends(m, path[1], path[-2], first, last)
    ia = V.int('ia', 0, len(sa) - 1)
    ib = V.int('ib', 0, len(sb) - 1)
    nn, nm = select(ia, sa), select(ib, sb)
    swap = bool(V.bool('swap_ends'))
    if swap:
        t = m._translate_cis_trans_sign(last, first, nm, nn)
    else:
        t = m._translate_cis_trans_sign(first, last, nn, nm)
    t0 = m._translate_cis_trans_sign(first, last, sa[0], sb[0])
    one = xor(ia != 0, ib != 0)
    if falsify:
        one = s_not(one)
    V.prove(s_iff((t != t0), one), 'sign changes exactly when the substituent at one end is exchanged',
            {'smiles': smi})
    V.observe('t', t)


def h_add_read_ct(V, smi):
    src = mol_of(smi)
    path = next(p for p in src.stereogenic_cumulenes if not len(p) % 2)
    first, last = path[0], path[-1]
    m = src.copy()
    i, j = m._stereo_cis_trans_centers[first]
    m._bonds[i][j]._stereo = None
    m.flush_cache()
    sa, sb = _ends(m, path[1], path[-2], first, last)
    ia = V.int('ia', 0, len(sa) - 1)
    ib = V.int('ib', 0, len(sb) - 1)
    nn, nm = int(select(ia, sa)), int(select(ib, sb))
    mark = bool(V.bool('mark'))
    if bool(V.bool('swap_ends')):
        m.add_cis_trans_stereo(last, first, nm, nn, mark)
    else:
        m.add_cis_trans_stereo(first, last, nn, nm, mark)
    back = m._translate_cis_trans_sign(first, last, sa[0], sb[0])
    V.prove(s_iff((back != mark), xor(ia != 0, ib != 0)),
            'cis/trans given for one substituent pair reads back for another flipped exactly when one end differs')
    V.observe('stereo', m._bonds[i][j].stereo)


def h_translate_allene(V, smi, falsify=False):
    m = mol_of(smi)
    path = next(p for p in m.stereogenic_cumulenes if len(p) % 2)
    c = path[len(path) // 2]
    first, last = path[0], path[-1]
    sa, sb = _ends(m, path[1], path[-2], first, last)
    ia = V.int('ia', 0, len(sa) - 1)
    ib = V.int('ib', 0, len(sb) - 1)
    nn, nm = select(ia, sa), select(ib, sb)
    # documented argument order: neighbour of the first terminal, then of the last (every caller in the library
    # passes them that way)
    t = m._translate_allene_sign(c, nn, nm)
    t0 = m._translate_allene_sign(c, sa[0], sb[0])
    one = xor(ia != 0, ib != 0)
    if falsify:
        one = s_not(one)
    V.prove(s_iff((t != t0), one), 'allene sign changes exactly when the substituent at one end is exchanged',
            {'smiles': smi})
    V.observe('t', t)


# ----------------------------------------------------------------------------------------------- geometry

def _place(V, m, lo=-8, hi=8):
    pts = {}
    for n, a in m.atoms():
        x, y = V.real(f'x{n}', lo, hi), V.real(f'y{n}', lo, hi)
        a._xy.x = x
        a._xy.y = y
        pts[n] = (x, y)
    return pts


def h_sign_antisymmetry(V, kind):
    """the three geometric sign functions change sign when two points are exchanged / mirrored, for all reals"""
    from chython.algorithms import stereo as S
    if kind == 'pyramid':
        # as used by the library: a planar drawing with exactly one point lifted out of the plane (any real height)
        lifted = V.choice('lifted', [0, 1, 2, 3])
        P = [(V.real(f'x{i}'), V.real(f'y{i}'), V.real('z') if i == lifted else 0) for i in range(4)]
    else:
        P = [(V.real(f'x{i}'), V.real(f'y{i}'), 0) for i in range(4)]
    if kind == 'pyramid':
        s = S._pyramid_sign(*P)
        V.prove(S._pyramid_sign(P[0], P[2], P[1], P[3]) == -s, 'pyramid sign antisymmetric (swap u, v)')
        V.prove(S._pyramid_sign(P[0], P[1], P[3], P[2]) == -s, 'pyramid sign antisymmetric (swap v, w)')
        V.prove(S._pyramid_sign(P[1], P[0], P[2], P[3]) == -s, 'pyramid sign antisymmetric (swap apex, u)')
        V.prove(S._pyramid_sign(P[0], P[2], P[3], P[1]) == s, 'pyramid sign invariant under rotation of the base')
        mir = [(x, y, -z) for x, y, z in P]
        V.prove(S._pyramid_sign(*mir) == -s, 'pyramid sign flips under reflection')
        V.observe('s', s)
    elif kind == 'cis_trans':
        Q = [(x, y) for x, y, _ in P]
        s = S._cis_trans_sign(*Q)
        V.prove(S._cis_trans_sign(Q[3], Q[2], Q[1], Q[0]) == s, 'cis/trans sign independent of reading direction')
        mir = [(x, -y) for x, y in Q]
        V.prove(S._cis_trans_sign(*mir) == s, 'cis/trans sign unchanged by mirroring the plane')
        # own reading: cis (1) iff both substituents lie strictly on the same side of the line through the double bond
        axis = sub2(Q[2], Q[1])
        side_n = cross2(axis, sub2(Q[0], Q[1]))
        side_w = cross2(axis, sub2(Q[3], Q[2]))
        prod = side_n * side_w
        V.prove(s_iff(s == 1, prod > 0), 'sign is +1 exactly when the substituents are on the same side')
        V.prove(s_iff(s == -1, prod < 0), 'sign is -1 exactly when the substituents are on opposite sides')
        V.prove(s_iff(s == 0, prod == 0), 'sign is 0 exactly for a substituent on the axis')
        V.observe('s', s)
    else:
        Q = [(x, y) for x, y, _ in P]
        mark = V.choice('mark', [1, -1])
        s = S._allene_sign(mark, Q[0], Q[1], Q[2])
        V.prove(S._allene_sign(-mark, Q[0], Q[1], Q[2]) == -s, 'allene sign flips with the wedge direction')
        mir = [(x, -y) for x, y in Q]
        V.prove(S._allene_sign(mark, *mir[:3]) == -s, 'allene sign flips when the drawing is mirrored with the wedge kept')
        axis = sub2(Q[1], Q[0])
        side_w = cross2(axis, sub2(Q[2], Q[1]))
        V.prove(s_iff(s == 0, side_w == 0), 'allene sign is 0 exactly for an in-plane substituent on the axis')
        V.observe('s', s)


def _written_neighbours(text, mol, centre_pos):
    """neighbour order of the atom at written position `centre_pos` per my own reader"""
    ref = refsmiles.read(text)
    return ref


def h_wedge_smiles(V, smi, falsify=False, spell=False):
    """all real 2-D coordinates + every wedge position/direction -> add_wedge -> SMILES mark, against the signed
    volume of the drawing read in the written neighbour order (my own reader of the written string)"""
    import chython
    src = mol_of(smi)
    n = stereo_centre(src)
    m = src.copy()
    m._atoms[n]._stereo = None
    for _, a in m.atoms():          # private coordinate objects (copy shares nothing, but be explicit)
        a._xy = type(a._xy)(0., 0.)
    m.flush_cache()
    pts = _place(V, m)
    nbrs = list(m._bonds[n])
    k = V.choice('wedge_to', nbrs)
    mark = V.choice('wedge', [1, -1])
    m.add_wedge(n, k, mark)
    s = m._atoms[n].stereo
    if s is None:
        V.note('degenerate drawing: add_wedge left the centre unlabelled')
        # chython declines exactly when its own signed volume is zero; nothing further to compare on this path
        V.prove(True, 'degenerate drawing skipped')
        return
    if spell:       # the order of atoms in this particular random spelling, not the canonical one
        text, order = m.__format__('r', _return_order=True)
        order = list(order)
    else:
        text, order = str(m), list(m.smiles_atoms_order)
    ref = refsmiles.read(text)
    ci = order.index(n)
    ra = ref.atoms[ci]
    V.prove(ra.chirality in ('@', '@@'), 'labelled centre is written with a chirality mark', {'text': text})
    if ra.chirality not in ('@', '@@'):
        return
    # 3-D points of the written neighbours: wedge end lifted by the mark, implicit H replaced by the centre
    # (looking from an implicit hydrogen == looking from the centre at the three others; see DESIGN C12)
    p3 = []
    for kind, j in ra.neighbours:
        if kind == 'H':
            x, y = pts[n]
            p3.append((x, y, 0))
        else:
            a = order[j]
            x, y = pts[a]
            p3.append((x, y, mark if a == k else 0))
    is_at, degenerate = smiles_at_from_points(p3)
    if falsify:
        is_at = s_not(is_at)
    V.assume(s_not(degenerate))
    V.prove(s_iff(is_at, (ra.chirality == '@')), 'SMILES mark equals the handedness of the drawing',
            {'text': text, 'smiles': smi})
    V.observe('text', text)


def h_cis_trans_2d_smiles(V, smi, falsify=False, spell=False):
    src = mol_of(smi)
    m = src.copy()
    for _, _, b in m.bonds():
        b._stereo = None
    for _, a in m.atoms():
        a._xy = type(a._xy)(0., 0.)
    m.flush_cache()
    pts = _place(V, m)
    for n, a in m.atoms():      # a valid drawing puts the two substituents of one end on opposite sides of the axis
        dbl = [k for k, b in m._bonds[n].items() if b.order == 2]
        oth = [k for k, b in m._bonds[n].items() if b.order != 2]
        if len(dbl) == 1 and len(oth) == 2:
            axis = sub2(pts[dbl[0]], pts[n])
            V.assume(cross2(axis, sub2(pts[oth[0]], pts[n])) * cross2(axis, sub2(pts[oth[1]], pts[n])) < 0)
    m.calculate_cis_trans_from_2d()
    if spell:
        text, order = m.__format__('r', _return_order=True)
        order = list(order)
    else:
        text, order = str(m), list(m.smiles_atoms_order)
    ref = refsmiles.read(text)
    labelled = [(i, j) for i, j, b in m.bonds() if b.stereo is not None]
    found = 0
    for db in ref.double_bond_geometry():
        # db: (u, v, a, b, same_side) in written indices: substituent a on u, b on v
        u, v, a, b, same = db
        pu, pv, pa, pb = pts[order[u]], pts[order[v]], pts[order[a]], pts[order[b]]
        axis = sub2(pv, pu)
        sa = cross2(axis, sub2(pa, pu))
        sb = cross2(axis, sub2(pb, pv))
        prod = sa * sb
        V.assume(prod != 0)
        cis = prod > 0
        if falsify:
            cis = s_not(cis)
        V.prove(s_iff(cis, (same)), 'direction marks put the substituents on the sides the drawing has',
                {'text': text, 'smiles': smi})
        found += 1
    if labelled:
        V.prove(found > 0, 'a labelled double bond is written with direction marks', {'text': text})
    else:
        V.note('degenerate drawing: no cis/trans label derived')
        V.prove(found == 0, 'an unlabelled double bond carries no direction marks', {'text': text})
    V.observe('text', text)


def h_wedge_roundtrip(V, smi, falsify=False):
    """stored sign -> _wedge_map (wedge from drawing) -> add_wedge on a clean copy -> same sign, all real coordinates"""
    src = mol_of(smi)
    m = src.copy()
    for _, a in m.atoms():
        a._xy = type(a._xy)(0., 0.)
    m.flush_cache()
    _place(V, m)
    stored = {n: a.stereo for n, a in m.atoms() if a.stereo is not None}
    wm = m._wedge_map
    V.prove(len(wm) == len(stored), 'one wedge per labelled centre', {'smiles': smi})
    m2 = m.copy()
    for n in stored:
        m2._atoms[n]._stereo = None
    m2.flush_cache()
    for n, k, v in wm:
        if v == 0:
            V.note('degenerate drawing: wedge map reports an ambiguous (0) wedge')
            V.prove(True, 'degenerate drawing skipped')
            return
    for n, k, v in wm:
        m2.add_wedge(n, k, (-v if falsify else v), clean_cache=False)
    for n, s in stored.items():
        c = n
        V.prove(m2._atoms[c].stereo == s, 'wedge written from the stored sign restores that sign', {'smiles': smi})
    V.observe('wedges', [(n, k) for n, k, _ in wm])


def _set_random(V):
    import chython.algorithms.smiles as sm

    def rnd():
        return V.fresh_real('rnd', 0, 1)
    sm.random = rnd


def _restore_random():
    import chython.algorithms.smiles as sm
    import random
    sm.random = random.random


def with_random(fn):
    def wrapped(V, **kw):
        _set_random(V)
        try:
            return fn(V, **kw)
        finally:
            _restore_random()
    wrapped.__name__ = fn.__name__
    return wrapped


def h_mirror_never_equal(V, smi):
    """mirror image / E-Z partner under every random-order spelling is never equal to the original"""
    import chython
    src = mol_of(smi)
    base = str(src)
    m = src.copy()
    # flip one symbolic stereo element (realised)
    elems = [('a', n) for n, a in m.atoms() if a.stereo is not None] + \
            [('b', (i, j)) for i, j, b in m.bonds() if b.stereo is not None]
    which = V.choice('flip', elems)
    if which[0] == 'a':
        m._atoms[which[1]]._stereo = not m._atoms[which[1]]._stereo
    else:
        i, j = which[1]
        m._bonds[i][j]._stereo = not m._bonds[i][j]._stereo
    m.flush_cache()
    text = format(m, 'r')
    back = chython.smiles(text)
    V.prove(str(back) != base, 'a stereoisomer never canonicalises to the original', {'text': text, 'smiles': smi})
    V.prove(not (back == src), 'a stereoisomer never compares equal to the original', {'text': text})
    V.prove(str(back) == str(m), 'every spelling of the stereoisomer reads back as that stereoisomer', {'text': text})
    V.observe('text', text)


def h_fix_stereo_keeps(V, smi):
    """labels survive fix_stereo on centres with constitutionally distinct substituents, for every spelling"""
    import chython
    src = mol_of(smi)
    text = format(src, 'r')
    back = chython.smiles(text)
    before = sorted(str(a.stereo) for _, a in back.atoms() if a.stereo is not None) + \
        sorted(str(b.stereo) for *_, b in back.bonds() if b.stereo is not None)
    back.fix_stereo()
    after = sorted(str(a.stereo) for _, a in back.atoms() if a.stereo is not None) + \
        sorted(str(b.stereo) for *_, b in back.bonds() if b.stereo is not None)
    V.prove(len(before) == len(after), 'fix_stereo keeps labels on stereogenic centres', {'text': text})
    nlabels = sum(a.stereo is not None for _, a in src.atoms()) + sum(b.stereo is not None for *_, b in src.bonds())
    V.prove(len(before) == nlabels, 'every spelling carries all labels', {'text': text})
    V.observe('text', text)


def h_canonical_stereo(V, smi):
    """canonical string of a larger multi-closure stereo system re-reads to the same configuration everywhere"""
    import chython
    src = mol_of(smi)
    text = str(src)
    back = chython.smiles(text)
    V.prove(str(back) == text, 'canonical string re-reads to itself', {'text': text, 'got': str(back)})
    order = list(src.smiles_atoms_order)
    corr = {n: i + 1 for i, n in enumerate(order)}
    for c, a in src.atoms():
        if a.stereo is not None and c in src.stereogenic_tetrahedrons:
            env = tuple(src._bonds[c])
            V.prove(back._atoms[corr[c]].stereo is not None and
                    src._translate_tetrahedron_sign(c, env) ==
                    back._translate_tetrahedron_sign(corr[c], tuple(corr[x] for x in env)),
                    'configuration of every centre preserved by the canonical string', {'text': text, 'atom': c})
    V.observe('text', text)


def h_nonstereogenic_dropped(V, smi):
    """a mark on a centre with two identical substituents is not kept"""
    import chython
    m = chython.smiles(smi)
    V.prove(all(a.stereo is None for _, a in m.atoms()) and all(b.stereo is None for *_, b in m.bonds()),
            'marks on non-stereogenic centres are dropped', {'smiles': smi})
    V.observe('s', str(m))


def h_ring_size(V, falsify=False):
    """a double bond (or an allene) inside a ring is a stereo element from ring size 8 on, and never below (the library's
    documented rule; RDKit draws the same line): ring size and marks are solver-chosen"""
    import chython
    n = int(V.int('ring_size', 4, 11))
    cis = bool(V.bool('cis'))
    a = (n - 4) // 2
    b = n - 4 - a
    text = 'C1' + 'C' * a + '/C=C' + (chr(92) if cis else '/') + 'C' * b + 'C1'
    m = chython.smiles(text)
    labelled = any(bd.stereo is not None for *_, bd in m.bonds())
    want = n >= 8
    if falsify:
        want = not want
    info = {'text': text, 'ring_size': n}
    V.prove(len(m) == n and labelled == want, 'an endocyclic double bond carries a cis/trans label exactly from ring size 8 on', info)
    other = chython.smiles('C1' + 'C' * a + '/C=C' + ('/' if cis else chr(92)) + 'C' * b + 'C1')
    V.prove((m == other) == (not want), 'cis and trans rings are different molecules exactly when the bond is a stereo element',
            info)
    if n >= 8:
        from rdkit import Chem
        V.prove(('/' in Chem.MolToSmiles(Chem.MolFromSmiles(text))) == labelled, 'RDKit keeps the configuration as well', info)
    V.observe('text', text)


HARNESSES = {
    'ring_size': h_ring_size,
    'tetra_table': h_tetra_table, 'alkene_table': h_alkene_table,
    'translate_tetra': h_translate_tetra, 'add_read_tetra': h_add_read_tetra,
    'translate_ct': h_translate_ct, 'add_read_ct': h_add_read_ct, 'translate_allene': h_translate_allene,
    'sign_antisymmetry': h_sign_antisymmetry,
    'wedge_smiles': with_random(h_wedge_smiles), 'cis_trans_2d_smiles': with_random(h_cis_trans_2d_smiles),
    'wedge_roundtrip': h_wedge_roundtrip,
    'mirror_never_equal': with_random(h_mirror_never_equal), 'fix_stereo_keeps': with_random(h_fix_stereo_keeps),
    'nonstereogenic_dropped': h_nonstereogenic_dropped, 'canonical_stereo': h_canonical_stereo,
}

TETRA = ['F[C@](Cl)(Br)I', 'C[C@H](N)O', '[H][C@](C)(N)O', 'C[C@H]1CCCO1', '[C@H](C)(N)O']
TETRA_T = TETRA + ['N[C@@]1(C)CCCO1', 'C[C@@](O)(N)CC', '[C@](F)(Cl)(Br)I']
CT = ['F/C(Cl)=C(/Br)I', 'F/C=C/Cl', 'F/C(Cl)=C/Br', '[H]/C(F)=C(/Cl)[H]', 'F/C(Cl)=C=C=C(/Br)I']
ALL = ['FC(Cl)=[C@]=C(Br)I', 'FC=[C@]=CCl', '[H]C(F)=[C@]=C(Cl)[H]']
GEO_T = ['F[C@](Cl)(Br)I', 'C[C@H](N)O', '[H][C@](C)(N)O', '[C@H](C)(N)O']
# wedge writing takes the centre as apex, wedge reading an explicit hydrogen: the recorded writer/reader asymmetry
# (C11 text) -> explicit-H centres are outside the wedge round trip
GEO_RT = [s for s in GEO_T if '[H]' not in s]
GEO_T_T = GEO_T + ['C[C@H]1CCO1', 'N[C@](C)(O)F']
GEO_CT = ['F/C=C/Cl', 'F/C(Cl)=C/Br', 'F/C(Cl)=C(/Br)I']
MIRROR = ['C[C@H](N)O', 'F/C=C/Cl', 'C[C@H](O)/C=C/F', 'FC=[C@]=CCl', 'C[C@H]1CC[C@@H](O)O1', 'C[C@]12CCC[C@H]1C2']
KEEPS = MIRROR + ['C[C@H](O)[C@H](F)[C@@H](C)O', 'C/C=C/[C@H](O)/C=C\\C']
MIRROR_T = MIRROR + ['C[C@H](N)[C@@H](O)F', 'C/C=C/C=C\\F', 'N[C@@]1(C)CCCO1']
NONSTEREO = ['C[C@H](C)O', 'F/C=C(/C)C', 'C[C@](C)(N)O', 'FC=[C@]=C(C)C']


def jobs(tier):
    T = tier == 'thorough'
    J = []
    J.append({'harness': 'ring_size', 'budget_s': 120})
    J.append({'harness': 'ring_size', 'params': {'falsify': True}, 'twin': True, 'budget_s': 60, 'max_failures': 1})
    J.append({'harness': 'tetra_table', 'budget_s': 60})
    J.append({'harness': 'alkene_table', 'budget_s': 60})
    J.append({'harness': 'tetra_table', 'params': {'falsify': True}, 'twin': True, 'budget_s': 60})
    J.append({'harness': 'alkene_table', 'params': {'falsify': True}, 'twin': True, 'budget_s': 60})
    for s in (TETRA_T if T else TETRA):
        J.append({'harness': 'translate_tetra', 'params': {'smi': s}, 'budget_s': 120})
        J.append({'harness': 'add_read_tetra', 'params': {'smi': s}, 'budget_s': 120})
    J.append({'harness': 'translate_tetra', 'params': {'smi': TETRA[0], 'falsify': True}, 'twin': True, 'budget_s': 120})
    for s in CT:
        J.append({'harness': 'translate_ct', 'params': {'smi': s}, 'budget_s': 120})
        J.append({'harness': 'add_read_ct', 'params': {'smi': s}, 'budget_s': 120})
    J.append({'harness': 'translate_ct', 'params': {'smi': CT[0], 'falsify': True}, 'twin': True, 'budget_s': 120})
    for s in ALL:
        J.append({'harness': 'translate_allene', 'params': {'smi': s}, 'budget_s': 120})
    J.append({'harness': 'translate_allene', 'params': {'smi': ALL[0], 'falsify': True}, 'twin': True, 'budget_s': 120})
    for k in ('pyramid', 'cis_trans', 'allene'):
        J.append({'harness': 'sign_antisymmetry', 'params': {'kind': k}, 'budget_s': 200, 'som': True})
    for s in (GEO_T_T if T else GEO_T):
        J.append({'harness': 'wedge_smiles', 'params': {'smi': s}, 'budget_s': 300})
        if '[H]' not in s:
            J.append({'harness': 'wedge_roundtrip', 'params': {'smi': s}, 'budget_s': 300})
        if T:
            J.append({'harness': 'wedge_smiles', 'params': {'smi': s, 'spell': True}, 'budget_s': 900,
                      'validate_every': 20})
    J.append({'harness': 'wedge_smiles', 'params': {'smi': GEO_T[1], 'falsify': True}, 'twin': True, 'budget_s': 300})
    J.append({'harness': 'wedge_roundtrip', 'params': {'smi': GEO_T[1], 'falsify': True}, 'twin': True, 'budget_s': 300})
    for s in GEO_CT:
        J.append({'harness': 'cis_trans_2d_smiles', 'params': {'smi': s}, 'budget_s': 300})
        if T:
            J.append({'harness': 'cis_trans_2d_smiles', 'params': {'smi': s, 'spell': True}, 'budget_s': 900,
                      'validate_every': 20})
    J.append({'harness': 'cis_trans_2d_smiles', 'params': {'smi': GEO_CT[0], 'falsify': True}, 'twin': True,
              'budget_s': 300})
    for s in (MIRROR_T if T else MIRROR):
        J.append({'harness': 'mirror_never_equal', 'params': {'smi': s}, 'budget_s': 600, 'validate_every': 10})
    for s in KEEPS + (MIRROR_T[len(MIRROR):] if T else []):
        J.append({'harness': 'fix_stereo_keeps', 'params': {'smi': s}, 'budget_s': 600, 'validate_every': 10})
    from vlib import seeds as _seeds
    for s in _seeds.BIG_STEREO:
        J.append({'harness': 'canonical_stereo', 'params': {'smi': s}, 'budget_s': 120})
    for s in NONSTEREO:
        J.append({'harness': 'nonstereogenic_dropped', 'params': {'smi': s}, 'budget_s': 60})
    return J
