"""C13 Edits keep derived views coherent; transactions atomic; copies independent."""
from vlib import seeds

PROPERTY = 'C13'

META = {
    'functions_encoded': [
        'chython/containers/molecule.py: add_atom, add_bond, delete_atom, delete_bond, fix_structure, calc_labels, '
        'calc_implicit, flush_cache, copy, substructure, split, union, __enter__, __exit__',
        'chython/containers/graph.py: Graph.add_atom, add_bond, remap, union, copy, flush_cache',
        'chython/algorithms/stereo.py: fix_stereo; every cached derived property read before and after the edit',
    ],
    'bounds': {
        'quick': 'one edit with solver-enumerated arguments (atom numbers incl. invalid ones, element, bond order, charge, '
                 'radical flag, subset bits) after all derived values were cached, on 9 Kekule seeds (<= 7 atoms); two '
                 'consecutive edits on 3 seeds',
        'thorough': '16 seeds, two consecutive edits on 8 seeds',
    },
    'outside_claim': ['edit histories longer than two steps (one inductive step from a cached state is the argument)',
                      'aromatic (Thiele) forms: documented as invalidated by edits', 'hydrogens on the edited atoms are '
                      'compared with a molecule rebuilt through the same public API (not with an independent valence model; '
                      'that is C04)'],
    'stubs': [],
    'assumptions': ['arguments are dictionary keys and therefore realised: solver-enumerated finite domains'],
}

SEEDS_Q = ['CCO', 'C1CC1C', 'C[C@H](N)O', 'F/C=C/Cl', 'CC(=O)O', 'CC.OC', 'CN~[Cu]', 'CC[C@H](N)O', 'C1CC2CC1C2']
SEEDS_X = ['C1CCCCC1C', 'C=CC=C', 'C1CC1C1CC1', 'CC[N+](C)(C)[O-]']
SEEDS_T = SEEDS_Q + SEEDS_X + ['C1CC2CC1C2', 'C[C@H]1CC[C@@H](O)O1', 'FC=[C@]=CCl', 'OCC(O)CO', 'C#CC=C', 'CS(=O)(=O)C', 'C1CCC1CC=O']


def views(m):
    """every derived value, read through the public attributes"""
    d = {
        'str': str(m), 'sssr': sorted(tuple(sorted(r)) for r in m.sssr), 'rings_count': m.rings_count,
        'components': sorted(tuple(sorted(c)) for c in m.connected_components),
        'order': dict(m.atoms_order), 'charge': int(m), 'radical': m.is_radical,
        'atoms': {n: (a.atomic_number, a.isotope, a.charge, a.is_radical, a.implicit_hydrogens, a.in_ring,
                      a.hybridization, a.neighbors, a.heteroatoms, a.stereo)
                  for n, a in m.atoms()},
        'ring_sizes': {n: tuple(sorted(a.ring_sizes)) for n, a in m.atoms()},
        'bonds': {(min(x, y), max(x, y)): (b.order, bool(b.in_ring), b.stereo) for x, y, b in m.bonds()},
        'chiral': (sorted(m.chiral_tetrahedrons), sorted(m.chiral_cis_trans), sorted(m.chiral_allenes)),
        'adjacency_symmetric': all(m._bonds[y][x] is b for x, nb in m._bonds.items() for y, b in nb.items()),
    }
    if all(a.implicit_hydrogens is not None for _, a in m.atoms()):
        d['brutto'] = dict(m.brutto)
    return d


def rebuild(m):
    """independent reconstruction through the public API: same atoms (number, element, isotope, charge, radical) and
    bonds in the same order; stereo labels re-applied and re-validated"""
    from chython import MoleculeContainer
    import chython.periodictable as pt
    new = MoleculeContainer()
    for n, a in m.atoms():
        b = getattr(pt, a.atomic_symbol)(a.isotope, charge=a.charge, is_radical=a.is_radical)
        new.add_atom(b, n, _skip_calculation=True)
    seen = set()
    for n, nb in m._bonds.items():
        seen.add(n)
        for k, b in nb.items():
            if k not in seen:
                new.add_bond(n, k, b.order, _skip_calculation=True)
    # keep the neighbour order of the edited molecule (stereo signs are relative to it)
    new._bonds = {n: {k: new._bonds[n][k] for k in m._bonds[n]} for n in m._bonds}
    new.flush_cache()
    new.fix_structure()
    for n, a in m.atoms():
        new._atoms[n]._stereo = a.stereo
    for x, y, b in m.bonds():
        new._bonds[x][y]._stereo = b.stereo
    new.flush_cache()
    new.fix_stereo()
    new.flush_cache()
    return new


EDITS = ['add_atom', 'add_bond', 'delete_atom', 'delete_bond', 'charge', 'radical', 'remap', 'union', 'isotope']


def apply_edit(V, m, tag):
    """one public-API edit with symbolic arguments; returns a description; may raise the library's own errors"""
    import chython
    from chython.exceptions import AtomNotFound, MappingError, BondNotFound
    nums = sorted(m._atoms)
    kind = V.choice(tag + '_kind', EDITS)
    cand = nums + [max(nums) + 1]
    if kind == 'add_atom':
        el = V.choice(tag + '_el', ['C', 'N', 'O', 'Cl'])
        n = V.choice(tag + '_n', [None] + cand)
        m.add_atom(el, n)
        return (kind, el, n)
    if kind == 'add_bond':
        a = V.choice(tag + '_a', cand)
        b = V.choice(tag + '_b', cand)
        o = V.choice(tag + '_o', [1, 2, 3, 8])
        m.add_bond(a, b, o)
        return (kind, a, b, o)
    if kind == 'delete_atom':
        a = V.choice(tag + '_a', cand)
        m.delete_atom(a)
        return (kind, a)
    if kind == 'delete_bond':
        a = V.choice(tag + '_a', cand)
        b = V.choice(tag + '_b', cand)
        m.delete_bond(a, b)
        return (kind, a, b)
    if kind == 'charge':
        a = V.choice(tag + '_a', nums)
        c = V.choice(tag + '_c', [-1, 0, 1, 2])
        with m:
            m.atom(a).charge = c
        return (kind, a, c)
    if kind == 'radical':
        a = V.choice(tag + '_a', nums)
        r = V.choice(tag + '_r', [False, True])
        with m:
            m.atom(a).is_radical = r
        return (kind, a, r)
    if kind == 'isotope':
        a = V.choice(tag + '_a', nums)
        with m:
            at = m.atom(a)
            at.isotope = sorted(at.isotopes_distribution)[-1]
        return (kind, a)
    if kind == 'remap':
        a = V.choice(tag + '_a', nums)
        t = V.choice(tag + '_t', [a + 100, nums[0], nums[-1]])
        m.remap({a: t})
        return (kind, a, t)
    if kind == 'union':
        other = chython.smiles('CN')
        rm = V.choice(tag + '_remap', [True, False])
        m.union(other, remap=rm, copy=False)
        return (kind, rm)
    raise AssertionError(kind)


def valid_ring_views(m, got, ref):
    from checks.c06 import independent
    rings = got['sssr']
    if sorted(map(len, rings)) != sorted(map(len, ref['sssr'])):
        return False
    kept = {frozenset((x, y)) for x, y, b in m.bonds() if b.order != 8}
    edge_sets = []
    for r in m.sssr:
        es = [frozenset((r[i], r[(i + 1) % len(r)])) for i in range(len(r))]
        if len(set(r)) != len(r) or not all(e in kept for e in es):
            return False
        edge_sets.append(frozenset(es))
    if independent(edge_sets, sorted(kept, key=sorted)) != len(rings):
        return False
    return all(got['ring_sizes'][n] == tuple(sorted({len(r) for r in rings if n in r})) for n in got['ring_sizes'])


def check_coherent(V, m, what, falsify=False):
    try:
        got = views(m)
    except Exception as e1:
        # chemically impossible intermediates (e.g. a carbon with two double bonds and a third substituent) can make a
        # derived value undefined; coherence then means: undefined in the same way for the rebuilt molecule
        try:
            views(rebuild(m))
            same = False
        except Exception as e2:
            same = type(e2) is type(e1)
        V.note('a derived value is undefined (raises) for the edited and for the rebuilt molecule alike')
        V.prove(same, 'derived views fail on the edited molecule exactly as on an independently rebuilt one',
                {'edit': what, 'error': type(e1).__name__})
        return
    ref = views(rebuild(m))
    if falsify:
        ref['str'] += 'C'
    for k in ref:
        if k in ('sssr', 'ring_sizes') and got.get(k) != ref[k]:
            # a minimum cycle basis need not be unique (two equally small rings to choose from): the edited molecule may
            # hold another one than a rebuilt molecule picks, as long as it is one and the per-atom sizes follow from it
            V.prove(valid_ring_views(m, got, ref), f'derived view "{k}" is that of a minimum cycle basis of the current bonds',
                    {'edit': what, 'got': got.get(k), 'want': ref[k]})
            continue
        V.prove(got.get(k) == ref[k], f'derived view "{k}" equals that of an independently rebuilt molecule',
                {'edit': what, 'got': got.get(k), 'want': ref[k]})
    V.prove(got['adjacency_symmetric'], 'adjacency stays symmetric', {'edit': what})


def h_edit(V, smi, steps=1, falsify=False, small=False):
    import chython
    m = chython.smiles(smi)
    views(m)                        # everything cached
    done = []
    for s in range(steps):
        before = views(m)
        try:
            what = apply_edit_safe(V, m, f'e{s}') if small else apply_edit(V, m, f'e{s}')
        except (KeyError, ValueError, TypeError) as e:       # the library's own argument errors
            # a rejected edit must leave the molecule exactly as it was and usable
            V.prove(views(m) == before, 'a rejected edit leaves the molecule intact', {'done': done, 'error':
                    type(e).__name__, 'before': before['str'], 'after': str(m)})
            check_coherent(V, m, done + [type(e).__name__])
            return
        done.append(what)
        if not m._atoms:
            V.prove(True, 'molecule emptied')
            return
        check_coherent(V, m, done, falsify)
    try:
        V.observe('str', str(m))
    except Exception as e:
        V.observe('str', type(e).__name__)


def h_transaction(V, smi):
    """a transaction block that raises restores exactly the prior molecule and leaves it usable"""
    import chython
    m = chython.smiles(smi)
    before = views(chython.smiles(smi))
    if bool(V.bool('cached_before')):
        views(m)                       # either everything or nothing is cached when the block starts
    nums = sorted(m._atoms)
    a = V.choice('a', nums)
    c = V.choice('c', [-1, 1, 2])
    extra = V.choice('extra', ['none', 'add_atom', 'delete_atom', 'add_bond_new'])

    class Boom(Exception):
        pass
    read_inside = bool(V.bool('read_inside'))
    try:
        with m:
            m.atom(a).charge = c
            m.atom(a).is_radical = True
            if read_inside:
                str(m), m.atoms_order, int(m), m.is_radical        # derived values computed inside the failing block
            if extra == 'add_atom':
                m.add_atom('O')
            elif extra == 'delete_atom':
                m.delete_atom(nums[-1])
            elif extra == 'add_bond_new':
                k = m.add_atom('N')
                m.add_bond(a, k, 1)
            raise Boom()
    except Boom:
        pass
    V.prove(views(m) == before, 'a raising transaction restores the prior molecule', {'seed': smi, 'extra': extra,
            'after': str(m), 'before': before['str']})
    V.prove(m._backup is None, 'no transaction state is left behind')
    # still usable: a successful edit afterwards is coherent
    m.add_atom('C')
    check_coherent(V, m, ['after failed transaction'])
    with m:
        m.atom(a).charge = 1
    check_coherent(V, m, ['transaction after failed transaction'])
    V.observe('s', str(m))


def h_transaction_edits(V, smi):
    """two edits inside one successful transaction block, then the block commits"""
    import chython
    m = chython.smiles(smi)
    views(m)
    done = []
    try:
        with m:
            for s_ in range(2):
                done.append(apply_edit_safe(V, m, f't{s_}', in_transaction=True))
    except (KeyError, ValueError, TypeError) as e:
        V.prove(False, 'a transaction of valid edits commits without an error', {'seed': smi, 'edits': done,
                'error': type(e).__name__})
        return
    if m._atoms:
        check_coherent(V, m, ['transaction'] + done)
    # and the object stays usable
    m.add_atom('C')
    check_coherent(V, m, ['edit after transaction'] + done)
    V.observe('done', done)


def h_deferred_edits(V, smi):
    """two edits with the recalculation deferred (_skip_calculation=True, as the library's own builders do), then
    fix_structure() / fix_stereo()"""
    import chython
    m = chython.smiles(smi)
    views(m)
    nums = sorted(m._atoms)
    done = []
    for s_ in range(2):
        kind = V.choice(f'd{s_}_kind', ['add_atom', 'add_bond_new', 'add_bond_existing', 'delete_bond', 'delete_atom'])
        cur = sorted(m._atoms)
        try:
            if kind == 'add_atom':
                m.add_atom('O', _skip_calculation=True)
            elif kind == 'add_bond_new':
                k = m.add_atom('N', _skip_calculation=True)
                m.add_bond(cur[-1], k, 1, _skip_calculation=True)
            elif kind == 'add_bond_existing':
                pair = next(((a, b) for a in cur for b in reversed(cur) if a != b and b not in m._bonds[a]), None)
                if pair:
                    m.add_bond(pair[0], pair[1], 1, _skip_calculation=True)
            elif kind == 'delete_bond':
                a = cur[0]
                b = next(iter(m._bonds[a]), None)
                if b is not None:
                    m.delete_bond(a, b, _skip_calculation=True)
            else:
                m.delete_atom(cur[-1], _skip_calculation=True)
        except (KeyError, ValueError, TypeError):
            pass
        done.append(kind)
    if not m._atoms:
        return
    m.fix_structure()
    m.fix_stereo()
    check_coherent(V, m, ['deferred'] + done)
    V.observe('done', done)


def h_failed_then_edit(V, smi):
    """a failed transaction that added / deleted atoms, then ordinary edits"""
    import chython
    m = chython.smiles(smi)
    before = views(m)

    class Boom(Exception):
        pass
    what = V.choice('what', ['add_atom_numbered', 'add_atom', 'delete_atom', 'add_bond'])
    try:
        with m:
            if what == 'add_atom_numbered':
                m.add_atom('N', 50)
            elif what == 'add_atom':
                m.add_atom('N')
            elif what == 'delete_atom':
                m.delete_atom(sorted(m._atoms)[-1])
            else:
                k = m.add_atom('O')
                m.add_bond(sorted(m._atoms)[0], k, 1)
            raise Boom()
    except Boom:
        pass
    V.prove(views(m) == before, 'a raising transaction restores the prior molecule', {'what': what})
    apply_edit_safe(V, m, 'after')
    if m._atoms:
        check_coherent(V, m, ['edit after failed transaction', what])
    V.observe('what', what)


def h_coordinates_independent(V, smi):
    """coordinates of a copy / substructure / union are not shared with the source"""
    import chython
    m = chython.smiles(smi)
    how = V.choice('how', ['copy', 'substructure', 'union'])
    d = {'copy': lambda: m.copy(), 'substructure': lambda: m.substructure(list(m._atoms)),
         'union': lambda: m | chython.smiles('CN')}[how]()
    n = sorted(m._atoms)[0]
    m.atom(n).x = 7.5
    m.atom(n).y = -3.25
    V.prove((d.atom(n).x, d.atom(n).y) == (0.0, 0.0), 'moving an atom of the source does not move the atom of the derived '
            'object', {'how': how, 'got': [d.atom(n).x, d.atom(n).y]})
    V.observe('how', how)


def h_independent(V, smi):
    """copies, substructures and unions do not change when the source is edited afterwards (and vice versa)"""
    import chython
    m = chython.smiles(smi)
    views(m)
    nums = sorted(m._atoms)
    how = V.choice('how', ['copy', 'substructure', 'union', 'split'])
    if how == 'copy':
        d = m.copy()
    elif how == 'substructure':
        bits = [bool(V.bool(f'in{n}')) for n in nums]
        sub = [n for n, b in zip(nums, bits) if b]
        V.assume(len(sub) > 0)
        d = m.substructure(sub)
        check_coherent(V, d, ['substructure', sub])
    elif how == 'union':
        d = m | chython.smiles('CN')
        check_coherent(V, d, ['union'])
    else:
        d = m.split()[0]
        check_coherent(V, d, ['split'])
    snap = views(d)
    src_snap = views(m)
    apply_edit_safe(V, m, 's')
    V.prove(views(d) == snap, 'a derived object is unaffected by a later edit of its source', {'how': how})
    # edit the derived object: the source must not move, and the derived object stays coherent
    m2 = chython.smiles(smi)
    views(m2)
    d2 = {'copy': lambda: m2.copy(), 'substructure': lambda: m2.substructure(nums[:max(1, len(nums) - 1)]),
          'union': lambda: m2 | chython.smiles('CN'), 'split': lambda: m2.split()[0]}[how]()
    apply_edit_safe(V, d2, 'd')
    V.prove(views(m2) == src_snap, 'the source is unaffected by an edit of the derived object', {'how': how})
    if d2._atoms:
        check_coherent(V, d2, ['edit of derived', how])
    V.observe('how', how)


def apply_edit_safe(V, m, tag, in_transaction=False):
    """one edit out of a small alphabet with fixed arguments (for the independence / transaction clauses)"""
    nums = sorted(m._atoms)
    kinds = ['add_atom', 'delete_atom', 'charge', 'add_bond', 'delete_bond', 'add_bond_existing', 'delete_added']
    kind = V.choice(tag + '_kind', kinds)
    try:
        if kind == 'add_bond_existing':
            # bond between two existing, not yet bonded atoms (first pair found)
            for a in nums:
                for b in nums:
                    if a < b and b not in m._bonds[a]:
                        m.add_bond(a, b, 1)
                        return (kind, a, b)
            return None
        if kind == 'delete_added':
            k = m.add_atom('C')
            m.delete_atom(k)
            return kind
        if kind == 'charge' and in_transaction:
            m.atom(nums[0]).charge = 1
            return kind
        if kind == 'add_atom':
            m.add_atom('O')
        elif kind == 'delete_atom':
            m.delete_atom(nums[-1])
        elif kind == 'charge':
            with m:
                m.atom(nums[0]).charge = 1
        elif kind == 'add_bond':
            k = m.add_atom('N')
            m.add_bond(nums[0], k, 1)
        else:
            a = nums[0]
            b = next(iter(m._bonds[a]), None)
            if b is not None:
                m.delete_bond(a, b)
    except (KeyError, ValueError, TypeError):
        return None
    return kind


HARNESSES = {'edit': h_edit, 'transaction': h_transaction, 'independent': h_independent,
             'transaction_edits': h_transaction_edits, 'failed_then_edit': h_failed_then_edit,
             'coordinates_independent': h_coordinates_independent, 'deferred_edits': h_deferred_edits}


def finding_key(job, failure):
    k = f"{job['harness']}:{failure['label']}"
    mdl = failure['model']
    kinds = [EDITS[mdl[x]] if not job['params'].get('small') else str(mdl[x]) for x in ('e0_kind', 'e1_kind') if x in mdl]
    if kinds:
        k += ':' + '+'.join(kinds)
    for x in ('t0_kind', 't1_kind', 'after_kind', 'what', 'how', 'd0_kind', 'd1_kind'):
        if x in mdl:
            k += f':{x}={mdl[x]}'
    return k


def jobs(tier):
    T = tier == 'thorough'
    J = []
    for s in (SEEDS_T if T else SEEDS_Q):
        J.append({'harness': 'edit', 'params': {'smi': s, 'steps': 1}, 'budget_s': 900, 'validate_every': 25,
                  'max_failures': 40, 'weight': 100})
        J.append({'harness': 'transaction', 'params': {'smi': s}, 'budget_s': 300, 'validate_every': 10})
        J.append({'harness': 'transaction_edits', 'params': {'smi': s}, 'budget_s': 600, 'validate_every': 10, 'max_failures': 30})
        J.append({'harness': 'failed_then_edit', 'params': {'smi': s}, 'budget_s': 300, 'validate_every': 10, 'max_failures': 30})
        J.append({'harness': 'coordinates_independent', 'params': {'smi': s}, 'budget_s': 60})
        J.append({'harness': 'deferred_edits', 'params': {'smi': s}, 'budget_s': 300, 'validate_every': 10, 'max_failures': 30})
        J.append({'harness': 'independent', 'params': {'smi': s}, 'budget_s': 1800, 'validate_every': 50, 'weight': 300})
    for s in (SEEDS_T[:8] if T else SEEDS_Q):
        J.append({'harness': 'edit', 'params': {'smi': s, 'steps': 2, 'small': not T}, 'budget_s': 3000, 'validate_every': 200,
                  'max_failures': 40, 'weight': 2000})
    J.append({'harness': 'edit', 'params': {'smi': 'CCO', 'steps': 1, 'falsify': True}, 'twin': True, 'budget_s': 120,
              'max_failures': 1})
    return J
