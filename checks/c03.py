"""C03 SMILES reader builds exactly the molecule the text denotes, rejects the rest."""
import z3

from vlib import refsmiles, symstr
from vlib.minisym import SymBool, s_and, s_or, s_not, s_iff, is_sym
from vlib.symstr import SymChar

PROPERTY = 'C03'

META = {
    'functions_encoded': [
        'chython/files/daylight/tokenize.py: _tokenize (re-compiled from its current source with `in "<literal>"`, int() and '
        '"".join() lifted to symbolic characters), smiles_tokenize, _atom_parse, atom_re, charge_dict',
        'chython/files/daylight/parser.py: parser', 'chython/files/daylight/smiles.py: smiles (molecule and reaction branch, '
        'CXSMILES radicals and fragment contraction)', 'chython/files/_mapping.py: postprocess_parsed_molecule',
    ],
    'bounds': {
        'quick': 'whole tokenizer + parser on every string of length <= 2, and of length 3 starting with C, c or "(", with each '
                 'character ranging over all of Unicode '
                 '(characters inside brackets: every ASCII character individually, all non-ASCII characters as one class), '
                 'differential against an independent reader; bracket atoms assembled from solver-enumerated fields; ring '
                 'closure / branch / bond templates of length <= 8 with symbolic characters at the variable positions; '
                 'reaction and CXSMILES framing with symbolic role counts and radical indices; molecule-level double-bond geometry '
                 'against the independent reader wherever both ends carry a mark',
        'thorough': 'every string of length <= 3 (all first characters); role counts 0..3; length 4 over the whole alphabet did '
                    'not finish in an hour on 16 cores and is not run',
    },
    'outside_claim': ['strings longer than the bound other than through the templates',
                      'regular-expression matching itself is executed concretely on realised bracket contents',
                      'the 4200 corpus strings are used under C10 (published packs) as concrete inputs only'],
    'stubs': [],
    'assumptions': ['non-ASCII characters inside brackets are represented by one character: valid because atom_re is checked '
                    '(from its current pattern) to mention only ASCII literals and ranges'],
}

_L = {}


def lifted():
    if not _L:
        import chython.files.daylight.tokenize as T
        tok = symstr.lift_function(T._tokenize)
        _L['tokenize'] = tok
        _L['smiles_tokenize'] = symstr.lift_function(T.smiles_tokenize, {'_tokenize': tok})
        _L['ascii_only'] = symstr.regex_is_ascii_only(T.atom_re)
    return _L


def impl_parse(s, V):
    """tokenizer + parser of the library on a (symbolic) string; returns the parse record or raises"""
    import chython.files.daylight.tokenize as T
    from chython.files.daylight.parser import parser
    if V.symbolic:
        toks = lifted()['smiles_tokenize'](s)
    else:
        toks = T.smiles_tokenize(s)
    return parser(toks, False)


def rec_above(sb, x, y):
    if y in sb.get(x, {}):
        return sb[x][y]
    if x in sb.get(y, {}):
        return not sb[y][x]
    return None


_CIS = None


def cis_sign():
    """the library's sign convention for 'the two named substituents are on the same side', calibrated once on a chain"""
    global _CIS
    if _CIS is None:
        import chython
        _CIS = chython.smiles('F/C=C\\F')._translate_cis_trans_sign(2, 3, 1, 4)
    return _CIS


def geometry(V, mol, ref, text):
    """molecule level: every double bond whose two ends carry a marked substituent (chain bond or either digit of a ring
    closure) has the configuration the independent reader derives - unless the bond is not stereogenic at all"""
    try:
        dbs = ref.double_bond_geometry()
    except Exception:
        return
    sct = mol.stereogenic_cis_trans
    chiral = mol.chiral_cis_trans if not any(b.stereo is not None for *_, b in mol.bonds()) else None
    for u, v, a, b, same in dbs:
        u, v, a, b = u + 1, v + 1, a + 1, b + 1
        key = (u, v) if (u, v) in sct else (v, u)
        if key not in sct or mol._bonds[u].get(v) is None or mol._bonds[u][v].order != 2:
            continue         # cumulene / not stereogenic by constitution
        if mol._bonds[u][v].stereo is None:
            # acceptable only if the library finds the bond non-stereogenic (equal substituents)
            V.prove(chiral is not None and key not in chiral and (key[1], key[0]) not in chiral,
                    'a marked stereogenic double bond gets its label', {'text': text, 'bond': [u, v]})
            continue
        got = mol._translate_cis_trans_sign(u, v, a, b)
        V.prove((got == cis_sign()) == same, 'double bond configuration is the written one', {'text': text, 'bond': [u, v]})


def compare(V, rec, ref, text):
    info = {'text': text}
    V.prove(len(rec['atoms']) == len(ref.atoms), 'same number of atoms', info)
    if len(rec['atoms']) != len(ref.atoms):
        return
    for i, (a, r) in enumerate(zip(rec['atoms'], ref.atoms)):
        V.prove(a['element'] == r.symbol, 'element', dict(info, atom=i, got=a['element'], want=r.symbol))
        V.prove((a.get('isotope') or None) == r.isotope, 'isotope', dict(info, atom=i))
        V.prove((a.get('charge') or 0) == r.charge, 'charge', dict(info, atom=i, got=a.get('charge'), want=r.charge))
        if r.bracket:
            V.prove(a.get('implicit_hydrogens') == r.hcount, 'bracket hydrogen count', dict(info, atom=i))
            V.prove(a.get('parsed_mapping') == r.amap, 'atom map', dict(info, atom=i, got=a.get('parsed_mapping'), want=r.amap))
        st = rec['stereo_atoms'].get(i)
        want = None if r.chirality is None else (r.chirality == '@')
        V.prove(st == want, 'chirality mark', dict(info, atom=i, got=st, want=want))
    got_b = {frozenset((n, m)): o for n, m, o in rec['bonds']}
    V.prove(len(got_b) == len(rec['bonds']), 'no bond twice', info)
    V.prove(got_b == ref.bond_table(), 'bonds and orders (implicit = aromatic between aromatic atoms, else single)',
            dict(info, got={str(sorted(k)): v for k, v in got_b.items()},
                 want={str(sorted(k)): v for k, v in ref.bond_table().items()}))
    for i, r in enumerate(ref.atoms):
        want = [j for kind, j in r.neighbours if kind == 'A']
        V.prove(list(rec['order'].get(i, [])) == want, 'neighbour order as written (ring closures at their digit)',
                dict(info, atom=i, got=list(rec['order'].get(i, [])), want=want))
    marks = ref._marks()
    sb = {k: dict(v) for k, v in rec['stereo_bonds'].items()}
    marked_ref = {frozenset(k) for k in marks}
    marked_got = {frozenset((x, y)) for x, d in sb.items() for y in d}
    V.prove(marked_ref == marked_got, 'direction marks sit on the same bonds', dict(info, got=sorted(map(sorted, marked_got)),
            want=sorted(map(sorted, marked_ref))))
    for (x, y), above in marks.items():
        V.prove(rec_above(sb, x, y) == above, 'direction mark has the written meaning', dict(info, bond=[x, y]))


ACCEPT_ERRORS = (ValueError,)      # IncorrectSmiles / IncorrectSmarts are ValueError subclasses


def h_string(V, n=None, first=None, falsify=False, template=None):
    """every string of length n (first character in the shard `first`), or every instance of a template whose None
    positions are symbolic characters"""
    import chython
    from chython.exceptions import IncorrectSmiles
    lifted()
    V.prove(_L['ascii_only'], 'atom_re mentions ASCII only (precondition of the one-class treatment of non-ASCII characters)')
    if template is not None:
        free = symstr.sym_string(V, 'c', sum(1 for t in template if t is None))
        it = iter(free)
        s = [next(it) if t is None else t for t in template]
        if not V.symbolic:
            s = ''.join(s)
        first = None
    else:
        s = symstr.sym_string(V, 'c', n)
    if first is not None:
        if V.symbolic:
            c0 = s[0]
            if first == 'other':
                V.assume(s_not(s_or(*[c0 == ch for ch in SHARD_CHARS])))
            else:
                V.assume(s_or(*[c0 == ch for ch in first]))
    try:
        ref = refsmiles.read(s)
    except refsmiles.RefReject:
        ref = None
    try:
        rec = impl_parse(s, V)
        err = None
    except ACCEPT_ERRORS as e:
        rec, err = None, e
    text = symstr.representative(V, s)
    if falsify and ref is not None and ref.atoms:
        ref.atoms[0].charge += 1
    # acceptance is judged at the public entry point, on the representative string of this path (every character of the
    # path's class behaves alike by construction): a molecule, or the library's ValueError
    public = None
    if '>' not in text and not any(ch.isspace() for ch in text):
        try:
            public = chython.smiles(text)
        except ValueError:
            public = False
    if ref is None:
        V.prove(rec is None or public is False, 'a string outside the language is rejected', {'text': text,
                'atoms': None if rec is None else [a.get('element') for a in rec['atoms']]})
    else:
        V.prove(rec is not None, 'a string of the language is accepted', {'text': text, 'error': repr(err)})
        if rec is not None:
            compare(V, rec, ref, text)
            if public is not None and public is not False:
                # (the public reader may still refuse a syntactically valid text on chemical grounds, e.g. an isotope
                # the element does not have: that is a ValueError and within the statement)
                V.prove(len(public) == len(ref.atoms), 'public reader builds as many atoms as the text has', {'text': text})
                if isinstance(public, chython.MoleculeContainer) and len(public) == len(ref.atoms):
                    geometry(V, public, ref, text)
    if rec is None and public is not None:
        V.prove(public is False, 'public reader rejects what the tokenizer/parser rejects', {'text': text})
    V.observe('text', text)


SHARD_CHARS = 'CBNOPSFIcnopsb[('
SHARDS = [['C'], ['B'], ['N', 'O'], ['P', 'S'], ['F', 'I'], ['c'], ['n', 'o'], ['p', 's', 'b'], ['['], ['('], 'other']

ISOTOPES = ['', '1', '13', '999', '1000', '0', '013']
SYMBOLS = ['C', 'c', 'N', 'n', 'Cl', 'se', 'Fe', 'H', 'U', 'Xx', 'A', 'as', 'b', 'te']
CHIRAL = ['', '@', '@@', '@@@']
HCOUNT = ['', 'H', 'H1', 'H2', 'H4', 'H5', 'H0', 'HH']
CHARGES = ['', '+', '++', '+++', '++++', '+++++', '+1', '+2', '+3', '+4', '+5', '-', '--', '---', '----', '-1', '-2', '-3',
           '-4', '-5', '+-', '+0']
MAPS = ['', ':0', ':1', ':42', ':9999', ':10000', ':', ':a']


FIELDS = {'iso': ISOTOPES, 'sym': SYMBOLS, 'chi': CHIRAL, 'h': HCOUNT, 'chg': CHARGES, 'map': MAPS}
DEFAULTS = {'iso': '', 'sym': 'C', 'chi': '', 'h': '', 'chg': '', 'map': ''}


def h_bracket(V, vary=('chg', 'sym'), falsify=False):
    """bracket atoms assembled from solver-enumerated fields (every charge spelling, boundary isotopes / hydrogens / maps);
    two fields range over their full lists at a time, the others keep their default"""
    import chython
    f = dict(DEFAULTS)
    for name in vary:
        f[name] = V.choice(name, FIELDS[name])
    iso, sym, chi, hc, chg, mp = f['iso'], f['sym'], f['chi'], f['h'], f['chg'], f['map']
    text = f'[{iso}{sym}{chi}{hc}{chg}{mp}]'
    try:
        ref = refsmiles.read(text)
    except refsmiles.RefReject:
        ref = None
    try:
        rec = impl_parse(text, V)
    except ValueError:
        rec = None
    if falsify and ref is not None:
        ref.atoms[0].charge += 1
    if ref is None:
        try:
            chython.smiles(text)
            pub = True
        except ValueError:
            pub = False
        V.prove(rec is None or not pub, 'a bracket atom outside the language is rejected', {'text': text})
    else:
        V.prove(rec is not None, 'a bracket atom of the language is accepted', {'text': text})
        if rec is not None:
            compare(V, rec, ref, text)
    V.observe('text', text)


POOL = ['C', 'CO', '[Na+]', 'c1ccccc1', 'CC(=O)O', '[Cl-]', 'O', 'N', 'CC']


def h_reaction(V, maxn=2, falsify=False):
    """reaction arrows and dots: roles and molecules as an independent splitting of the text gives them"""
    import chython
    nr, ng, npd = int(V.int('reactants', 0, maxn)), int(V.int('reagents', 0, maxn)), int(V.int('products', 0, maxn))
    V.assume(nr + ng + npd > 0)
    it = iter(POOL)
    parts = [[next(it) for _ in range(k)] for k in (nr, ng, npd)]
    text = '>'.join('.'.join(p) for p in parts)
    r = chython.smiles(text)
    want = [[str(chython.smiles(x)) for x in p] for p in parts]
    if falsify:
        want[0] = want[0][1:]
    V.prove([sorted(map(str, r.reactants)), sorted(map(str, r.reagents)), sorted(map(str, r.products))] ==
            [sorted(w) for w in want], 'reaction text gives the molecules of each role', {'text': text})
    V.observe('text', text)


def h_cx(V):
    """CXSMILES radical lists and fragment grouping"""
    import chython
    k = V.choice('case', ['rad1', 'rad2', 'frag', 'frag_rxn', 'frag2'])
    if k == 'rad1':
        m = chython.smiles('C[CH]C |^1:1|')
        V.prove([a.is_radical for _, a in m.atoms()] == [False, True, False], 'radical list marks the listed atom')
    elif k == 'rad2':
        m = chython.smiles('[CH2]C[CH2] |^1:0,2|')
        V.prove([a.is_radical for _, a in m.atoms()] == [True, False, True], 'radical list with two atoms')
    elif k == 'frag':
        r = chython.smiles('[Na+].[Cl-].CO>>CO |f:0.1|')
        V.prove(sorted(len(m) for m in r.reactants) == [2, 2], 'fragment grouping joins the listed components into one molecule',
                {'got': [str(m) for m in r.reactants]})
    elif k == 'frag_rxn':
        r = chython.smiles('CO.[Na+].[OH-]>>C[O-].[Na+].O |f:1.2,3.4|')
        V.prove(sorted(len(m) for m in r.reactants) == [2, 2] and sorted(len(m) for m in r.products) == [1, 3],
                'two groups, one per side', {'reactants': [str(m) for m in r.reactants], 'products': [str(m) for m in r.products]})
    else:
        r = chython.smiles('[K+].CC(=O)[O-].C>O>CC |f:0.1|')
        V.prove(sorted(len(m) for m in r.reactants) == [1, 5] and len(r.reagents) == 1 and len(r.products) == 1,
                'grouping inside the reactant side only')
    V.observe('case', k)


def h_cx_radicals(V, maxn=2, falsify=False):
    """CXSMILES radical list on a reaction: indices count atoms in the written order reactants, reagents, products"""
    import chython
    nr, ng, np_ = (int(V.int(k, 0, maxn)) for k in ('reactants', 'reagents', 'products'))
    total = 2 * (nr + ng + np_)
    if not total:
        V.note('empty')
        return
    i = int(V.int('i', 0, total - 1))
    j = int(V.int('j', 0, total - 1))
    V.assume(i <= j)
    listed = sorted({i, j})
    text = '>'.join('.'.join(['CO'] * k) for k in (nr, ng, np_)) + ' |^1:' + ','.join(map(str, listed)) + '|'
    r = chython.smiles(text)
    got = [[[a.is_radical for _, a in m.atoms()] for m in role] for role in (r.reactants, r.reagents, r.products)]
    flat = [x in listed for x in range(total)]
    if falsify:
        flat[0] = not flat[0]
    want, pos = [], 0
    for k in (nr, ng, np_):
        want.append([flat[pos + 2 * q: pos + 2 * q + 2] for q in range(k)])
        pos += 2 * k
    V.prove(got == want, 'the radical list marks exactly the listed atoms, counted in the written order of the roles',
            {'text': text, 'got': got, 'want': want})
    V.observe('text', text)


TEMPLATES = [
    ['C', '1', 'C', 'C', None], ['C', None, '1', 'C', 'C', '1'], ['C', '1', 'C', 'C', None, '1'],
    ['C', '%', None, None, 'C', 'C', '%', '1', '2'], ['C', '%', '1', '2', 'C', 'C', '%', None, None],
    ['C', '(', None, ')', 'C'], ['C', None, 'C', None, 'C'], ['[', None, 'H', ']'], ['[', 'C', None, ']'],
    ['F', '/', 'C', '=', 'C', None, 'F'], ['C', '.', None], ['C', None, '(', 'C', ')'], ['c', '1', 'c', None, 'c', '1'],
    ['C', '(', 'C', ')', None, 'C'], ['[', '1', '3', 'C', 'H', None, ']'],
    # a direction mark on either digit of a ring closure next to a double bond, written at the double-bond atom or at its partner
    ['F', '/', 'C', '=', 'C', None, '1', '.', 'N', '1'], ['F', '/', 'C', '=', 'C', '1', '.', 'N', None, '1'],
    ['N', None, '1', '.', 'F', '/', 'C', '=', 'C', '1'], ['N', '1', '.', 'F', '/', 'C', '=', 'C', None, '1'],
]

HARNESSES = {'string': h_string, 'bracket': h_bracket, 'reaction': h_reaction, 'cx': h_cx, 'cx_radicals': h_cx_radicals}


def finding_key(job, failure):
    info = failure.get('info') or {}
    return f"{job['harness']}:{failure['label']}:{info.get('text')}"


def jobs(tier):
    T = tier == 'thorough'
    J = []
    for n in [1, 2, 3]:      # length 4 over the whole alphabet did not finish in an hour on 16 cores: not run
        for sh in SHARDS:
            if n == 3 and not T and sh not in (['C'], ['c'], ['(']):
                continue
            J.append({'harness': 'string', 'params': {'n': n, 'first': sh}, 'budget_s': 6000 if n > 3 else 1500,
                      'validate_every': 200, 'max_failures': 40, 'weight': 10 ** n})
    for t in TEMPLATES:
        J.append({'harness': 'string', 'params': {'template': t}, 'budget_s': 1500, 'validate_every': 200,
                  'max_failures': 40, 'weight': 500, 'name': 'template:' + ''.join('?' if x is None else x for x in t)})
    import itertools
    for a, b in itertools.combinations(sorted(FIELDS), 2):
        J.append({'harness': 'bracket', 'params': {'vary': [a, b]}, 'budget_s': 300, 'validate_every': 50, 'max_failures': 60,
                  'weight': 100})
    J.append({'harness': 'bracket', 'params': {'vary': ['chg'], 'falsify': True}, 'twin': True, 'budget_s': 120,
              'max_failures': 1, 'validate': False})
    J.append({'harness': 'reaction', 'params': {'maxn': 3 if T else 2}, 'budget_s': 600})
    J.append({'harness': 'cx_radicals', 'params': {'maxn': 3 if T else 2}, 'budget_s': 900, 'validate_every': 100})
    J.append({'harness': 'cx_radicals', 'params': {'maxn': 1, 'falsify': True}, 'twin': True, 'budget_s': 120, 'max_failures': 1})
    J.append({'harness': 'reaction', 'params': {'maxn': 1, 'falsify': True}, 'twin': True, 'budget_s': 120, 'max_failures': 1})
    J.append({'harness': 'cx', 'budget_s': 120})
    J.append({'harness': 'string', 'params': {'n': 1, 'first': ['C'], 'falsify': True}, 'twin': True, 'budget_s': 60,
              'max_failures': 1})
    return J
