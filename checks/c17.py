"""C17 Fingerprints are structure functions with the documented fragment semantics."""
from collections import Counter

from vlib.minisym import s_and, s_or, s_not, is_sym, SymBV, WIDE
from vlib.spell import respell
from checks.c01 import mol_of
from checks.c06 import SK

PROPERTY = 'C17'

META = {
    'functions_encoded': [
        'chython/algorithms/fingerprints/linear.py: _chains, _fragments, linear_hash_set, linear_bit_set, linear_fingerprint, '
        'linear_hash_smiles', 'chython/algorithms/fingerprints/morgan.py: _morgan_hash_dict, morgan_hash_set, morgan_bit_set',
        'chython/algorithms/fingerprints/__init__.py: Fingerprints._atom_identifiers',
    ],
    'bounds': {
        'quick': 'fragments: 8 skeletons <= 6 atoms with every atom identifier a solver variable over 3 values and bond orders '
                 'over {1,2}, radii 1..4, cap 0..3; folding: every signed 64-bit hash as a bit-vector, length 2^k for k = 1..12 '
                 '(realised), 1..4 active bits; numbering independence (hash sets, folded fingerprints, fragment-SMILES dictionaries): every random-order '
                 'spelling of 12 seeds',
        'thorough': '14 skeletons, 30 seeds, k up to 16',
    },
    'outside_claim': ['hash collisions of CPython tuple hashing', 'CGR fingerprints'],
    'stubs': ['`set` in the fingerprint modules replaced by an order-keeping recorder for the folding harness (so that symbolic '
              'bit indices are not hashed)', '_atom_identifiers overridden to hand out solver integers in the fragment harness'],
    'assumptions': [],
}


def simple_paths(adj, k):
    """all simple paths with k atoms, each undirected path once (as the lexicographically larger direction is irrelevant
    here: the caller canonicalises by labels)"""
    out = set()

    def ext(p):
        if len(p) == k:
            out.add(p if p <= p[::-1] else p[::-1])
            return
        for n in adj[p[-1]]:
            if n not in p:
                ext(p + (n,))
    for a in adj:
        ext((a,))
    return out


def h_fragments(V, sk, falsify=False):
    from chython import MoleculeContainer
    from chython.containers.bonds import Bond
    import chython.periodictable as pt
    n, edges = SK[sk]
    ids = {i: V.int(f'id{i}', 0, 2 if n <= 4 else 1) for i in range(1, n + 1)}
    orders = {}

    class M(MoleculeContainer):
        __slots__ = ()

        @property
        def _atom_identifiers(self):
            return dict(ids)
    m = M()
    for i in range(1, n + 1):
        m._atoms[i] = pt.C()
        m._bonds[i] = {}
    for k, (i, j) in enumerate(edges):
        o = int(V.int(f'o{k}', 1, 2)) if k == 0 else 1
        orders[frozenset((i, j))] = o
        m._bonds[i][j] = m._bonds[j][i] = Bond(o)
    lo, hi = V.choice('radii', [(1, 4), (2, 3), (1, 1), (3, 4)])
    got = m._fragments(lo, hi)
    idc = {i: int(v) for i, v in ids.items()}       # the code hashed the label tuples: realised
    adj = {i: list(m._bonds[i]) for i in m._atoms}
    want = Counter()
    for k in range(lo, hi + 1):
        for p in simple_paths(adj, k):
            lab = [idc[p[0]]]
            for x, y in zip(p, p[1:]):
                lab.append(orders[frozenset((x, y))])
                lab.append(idc[y])
            lab = tuple(lab)
            want[max(lab, lab[::-1])] += 1
    if falsify and want:
        want[next(iter(want))] += 1
    V.prove({k: len(v) for k, v in got.items()} == dict(want), 'fragments are exactly the simple paths of the requested '
            'lengths, each once, keyed by the larger reading direction', {'skeleton': sk, 'radii': [lo, hi]})
    V.prove(all(len(set(c)) == len(c) and len({frozenset(x) if False else tuple(sorted((x, x[::-1]))[0]) for x in c}) == len(c)
                for c in got.values()), 'no path is listed twice')
    cap = V.choice('cap', [0, 2])
    hs = m.linear_hash_set(lo, hi, cap)
    ref = {hash((*k, c)) for k, cnt in want.items() for c in range(min(cnt, cap or 10 ** 9))}
    V.prove(hs == ref, 'hash set carries the multiplicity up to the cap (0 = no cap)', {'skeleton': sk, 'cap': cap})
    V.observe('n', len(got))


class Recorder(list):
    def add(self, x):
        self.append(x)


def h_folding(V, which='linear', falsify=False):
    """bit indices for every 64-bit hash value"""
    import chython
    import chython.algorithms.fingerprints.linear as L
    import chython.algorithms.fingerprints.morgan as Mg
    mod = L if which == 'linear' else Mg
    h = V.wint('hash', -2 ** 63, 2 ** 63 - 1)
    k = int(V.int('k', 1, 12))
    nab = int(V.int('number_active_bits', 1, 4))
    length = 1 << k
    m = chython.smiles('C')
    mod.set = Recorder
    try:
        if which == 'linear':
            type(m).linear_hash_set, saved = (lambda self, *a, **kw: [h]), type(m).linear_hash_set
            try:
                bits = m.linear_bit_set(1, 4, length, nab, 4)
            finally:
                type(m).linear_hash_set = saved
        else:
            type(m).morgan_hash_set, saved = (lambda self, *a, **kw: [h]), type(m).morgan_hash_set
            try:
                bits = m.morgan_bit_set(1, 4, length, nab)
            finally:
                type(m).morgan_hash_set = saved
    finally:
        del mod.set
    V.prove(len(bits) == (nab if not falsify else nab + 1), 'one bit index per requested active bit', {'k': k, 'nab': nab})
    for i, b in enumerate(bits):
        V.prove(s_and(b >= 0, b < length), 'bit index lies below the requested length', {'k': k, 'i': i})
        want = (h >> (i * k)) & (length - 1)
        V.prove(b == want, 'i-th bit index is the i-th group of log2(length) bits of the hash', {'k': k, 'i': i})
    V.observe('n', len(bits))


def my_morgan(m, lo, hi):
    ids = {n: hash((a.isotope or 0, a.atomic_number, a.charge, a.is_radical)) for n, a in m.atoms()}
    out = [ids]
    for _ in range(1, hi):
        new = {}
        for n in ids:
            flat = []
            for o, x in sorted((int(b), ids[k]) for k, b in m._bonds[n].items()):
                flat.extend((o, x))
            new[n] = hash((ids[n], *flat))
        ids = new
        out.append(ids)
    return out[lo - 1:]


def h_numbering(V, smi):
    """fingerprints of every random-order spelling equal those of the seed; Morgan identifiers equal my own iterated
    neighbourhood hashing"""
    import chython
    src = mol_of(smi)
    text, order = respell(V, src.copy())
    back = chython.smiles(text)
    if any(b.order == 4 for *_, b in back.bonds()):
        back.kekule()
        back.thiele()
    lo, hi = V.choice('radii', [(1, 4), (2, 3)])
    V.prove(back.linear_hash_set(lo, hi) == src.linear_hash_set(lo, hi), 'linear hash set independent of numbering',
            {'text': text})
    V.prove(back.morgan_hash_set(lo, hi) == src.morgan_hash_set(lo, hi), 'Morgan hash set independent of numbering',
            {'text': text})
    V.prove(bool((back.linear_fingerprint(lo, hi, 256) == src.linear_fingerprint(lo, hi, 256)).all()) and
            bool((back.morgan_fingerprint(lo, hi, 256) == src.morgan_fingerprint(lo, hi, 256)).all()),
            'folded fingerprints independent of numbering', {'text': text})
    mine = my_morgan(src, lo, hi)
    V.prove(src._morgan_hash_dict(lo, hi) == mine, 'Morgan identifiers are the iterated neighbourhood hashes of the requested '
            'radii', {'seed': smi, 'radii': [lo, hi]})
    fr = src._fragments(lo, hi)
    V.prove(sorted(len(v) for v in fr.values()) == sorted(len(v) for v in back._fragments(lo, hi).values()),
            'fragment multiplicities independent of numbering', {'text': text})
    V.prove(back.linear_hash_smiles(lo, hi) == src.linear_hash_smiles(lo, hi) and
            back.linear_smiles_hash(lo, hi) == src.linear_smiles_hash(lo, hi),
            'fragment SMILES of the hash dictionaries independent of numbering', {'text': text})
    V.observe('text', text)


HARNESSES = {'fragments': h_fragments, 'folding': h_folding, 'numbering': h_numbering}

SEEDS_Q = ['CCO', 'CC(=O)O', 'c1ccccc1', 'c1ccncc1', 'C1CC1C', 'C[N+](C)(C)C', 'CC[O-].[Na+]', '[13CH4]', 'C[CH]C',
           'C[C@H](N)O', 'F/C=C/Cl', 'CS(=O)(=O)C']


def jobs(tier):
    T = tier == 'thorough'
    sks = ['chain4', 'ring3', 'ring4', 'ring3-tail', 'bicyclobutane']
    if T:
        sks += ['ring6', 'linked33', 'house', 'two-components', 'tetrahedrane', 'fused44']
    J = []
    for sk in sks:
        J.append({'harness': 'fragments', 'params': {'sk': sk}, 'budget_s': 400, 'validate_every': 200, 'max_failures': 10,
                  'weight': 3 ** SK[sk][0]})
    J.append({'harness': 'fragments', 'params': {'sk': 'ring3', 'falsify': True}, 'twin': True, 'budget_s': 120,
              'max_failures': 1, 'validate': False})
    for w in ('linear', 'morgan'):
        J.append({'harness': 'folding', 'params': {'which': w}, 'budget_s': 600, 'validate_every': 5})
    J.append({'harness': 'folding', 'params': {'which': 'linear', 'falsify': True}, 'twin': True, 'budget_s': 120,
              'max_failures': 1, 'validate': False})
    from vlib import seeds
    for s in (seeds.QUICK[:30] if T else SEEDS_Q):
        J.append({'harness': 'numbering', 'params': {'smi': s}, 'budget_s': 300, 'validate_every': 50, 'weight': 100})
    return J
