"""C08 SMARTS primitives and query atoms match exactly what is documented."""
from vlib.minisym import SymBool, SymInt, s_and, s_or, s_not, s_iff, implies, is_sym, ite
from vlib.symchem import sym_atom, sym_query_attrs, doc_atom_match, NONMETALS, NOBLE, member, sym_tuple
from vlib.oracles import count_true
from checks.c12 import with_random, mol_of

PROPERTY = 'C08'

META = {
    'functions_encoded': [
        'chython/periodictable/base/query.py: QueryElement.__eq__, AnyElement.__eq__, ListElement.__eq__, AnyMetal.__eq__',
        'chython/containers/bonds.py: QueryBond.__eq__, Bond.__eq__',
        'chython/containers/molecule.py: MoleculeContainer.calc_labels (+ Rings.not_special_connectivity, atoms_rings_sizes)',
        'chython/files/daylight/smarts.py: smarts; tokenize.py: smarts_tokenize, _query_parse, _tokenize; parser.py: parser',
        'chython/algorithms/isomorphism.py: QueryIsomorphism.get_mapping stereo filter (pure-Python path)',
    ],
    'bounds': {
        'quick': 'query constraint lists of length 0..2 with symbolic members, every atom attribute symbolic (isotope, '
                 'charge -4..4, radical, neighbours/heteroatoms 0..14, hybridisation 1..4, H 0..4/None, ring-size sets over '
                 '{3,5,6}); bond order lists as symbolic subsets of {1,2,3,4,8}; star environments of 0..4 neighbours; '
                 'SMARTS atom strings from the documented primitive grammar with <= 2 constraint groups; query atoms built by '
                 'from_atom with source atom, requested properties and image atom solver-chosen over 5 small molecules',
        'thorough': 'lists up to length 3, more element classes, SMARTS with <= 3 constraint groups, more stereo seeds',
    },
    'outside_claim': ['recursive SMARTS, & logic (documented as unsupported: only rejection is checked)',
                      'ring sizes beyond the listed set on the molecule side'],
    'stubs': ['random() -> fresh real in [0,1) for the spelling harnesses'],
    'assumptions': [],
}


def _classes():
    import chython.periodictable as pt
    return pt


def h_atom_eq(V, kind, q_el='C', a_el='C', lens=(0, 2), rings=False, falsify=False):
    pt = _classes()
    acls = getattr(pt, a_el)
    a, aa = sym_atom(V, acls, 'a', ring_choices=(3, 5, 6) if rings else ())
    maxlen = dict(lens=(0,) if rings else tuple(lens), ring_mode=None if rings else 'any')
    if kind == 'element':
        q = object.__new__(getattr(pt, 'Query' + q_el))
        qa = sym_query_attrs(V, q, 'q', **maxlen)
        iso = V.int('q_iso', 0, 400)
        q_iso_none = V.bool('q_iso_none')
        q._isotope = None if q_iso_none else iso
        qa['iso'] = iso
        qa['iso_spec'] = False if q_iso_none else (iso != 0)
        element_ok = q.atomic_number == a.atomic_number
    elif kind == 'any':
        q = object.__new__(pt.AnyElement)
        qa = sym_query_attrs(V, q, 'q', **maxlen)
        element_ok = True
    elif kind == 'list':
        els = q_el.split(',')
        q = pt.ListElement(els)
        qa = sym_query_attrs(V, q, 'q', **maxlen)
        element_ok = a_el in els
    else:
        q = object.__new__(pt.AnyMetal)
        qa = sym_query_attrs(V, q, 'q', extended=False, **maxlen)
        z = a.atomic_number
        element_ok = z not in NONMETALS and z not in NOBLE
    got = q == a
    want = doc_atom_match({'element': 'element', 'any': 'any', 'list': 'list', 'metal': 'metal'}[kind], qa, aa, element_ok)
    if falsify:
        want = s_and(want, aa['charge'] != 1)
    V.prove(s_iff(got, want), 'query atom matches exactly when the documented predicate holds',
            {'kind': kind, 'query': q_el, 'atom': a_el})
    V.observe('got', got)


LISTS = [['Cl', 'Br'], ['Si', 'N'], ['C', 'N'], ['Fe', 'Og', 'H'], ['Se', 'As', 'Te']]


def h_list_elements(V, k=0):
    """an element list against every element: matches exactly its members"""
    pt = _classes()
    from vlib.refsmiles import ELEMENTS
    els = LISTS[k]
    q = pt.ListElement(els)
    z = int(V.int('Z', 1, 118))
    a = getattr(pt, ELEMENTS[z - 1])()
    a._neighbors = a._heteroatoms = 0
    a._hybridization = 1
    a._ring_sizes = set()
    a._in_ring = False
    a._implicit_hydrogens = 0
    V.prove((q == a) == (ELEMENTS[z - 1] in els), 'element list matches exactly its members', {'list': els,
            'atom': ELEMENTS[z - 1]})
    import chython
    q2 = next(iter(chython.smarts('[' + ','.join(els) + ']').atoms()))[1]
    V.prove((q2 == a) == (ELEMENTS[z - 1] in els), 'SMARTS element list matches exactly its members', {'list': els,
            'atom': ELEMENTS[z - 1]})
    V.observe('m', q == a)


RING_SHAPES = {
    'bicyclopropyl': (6, [(1, 2), (2, 3), (1, 3), (3, 4), (4, 5), (5, 6), (4, 6)]),
    'spiropentane': (5, [(1, 2), (2, 3), (1, 3), (3, 4), (4, 5), (3, 5)]),
    'bicyclobutane': (4, [(1, 2), (2, 3), (3, 4), (4, 1), (1, 3)]),
    'cyclopropylmethyl': (5, [(1, 2), (2, 3), (1, 3), (3, 4), (4, 5)]),
    'cyclobutyl-cyclobutyl': (8, [(1, 2), (2, 3), (3, 4), (4, 1), (4, 5), (5, 6), (6, 7), (7, 8), (8, 5)]),
    'ring3-chain-ring3': (7, [(1, 2), (2, 3), (1, 3), (3, 4), (4, 5), (5, 6), (6, 7), (5, 7)]),
}


def h_ring_labels(V, shape, falsify=False):
    """ring marks on atoms and bonds against an independent oracle (a bond is in a ring iff it is not a bridge of the
    graph without coordinate bonds), with every bond symbolically ordinary or coordinate"""
    from chython import MoleculeContainer
    from chython.containers.bonds import Bond
    pt = _classes()
    n, edges = RING_SHAPES[shape]
    m = MoleculeContainer()
    for i in range(1, n + 1):
        m._atoms[i] = pt.C()
        m._bonds[i] = {}
    kept = []
    for k, (i, j) in enumerate(edges):
        coord = bool(V.bool(f'coord{k}'))
        b = Bond(8 if coord else 1)
        m._bonds[i][j] = m._bonds[j][i] = b
        if not coord:
            kept.append((i, j))
    m.calc_labels()

    def connected(es, a, b):
        adj = {}
        for x, y in es:
            adj.setdefault(x, set()).add(y)
            adj.setdefault(y, set()).add(x)
        seen, st = {a}, [a]
        while st:
            x = st.pop()
            for y in adj.get(x, ()):
                if y not in seen:
                    seen.add(y)
                    st.append(y)
        return b in seen
    ring_atoms = set()
    for (i, j) in edges:
        b = m._bonds[i][j]
        if (i, j) in kept:
            in_ring = connected([e for e in kept if e != (i, j)], i, j)
            if falsify and shape == 'bicyclopropyl' and (i, j) == (3, 4):
                in_ring = not in_ring
            V.prove(bool(b.in_ring) == in_ring, 'bond ring mark = bond lies on a cycle of ordinary bonds',
                    {'shape': shape, 'bond': [i, j], 'kept': kept})
            if in_ring:
                ring_atoms.update((i, j))
    for i in range(1, n + 1):
        a = m._atoms[i]
        V.prove(a.in_ring == (i in ring_atoms), 'atom ring mark = atom lies on a cycle', {'shape': shape, 'atom': i,
                'kept': kept})
        V.prove(bool(a.ring_sizes) == (i in ring_atoms), 'ring sizes are given exactly for ring atoms')
    V.observe('kept', kept)


def h_bond_eq(V, falsify=False):
    from chython.containers.bonds import Bond, QueryBond
    bits = {o: V.bool(f'q_has{o}') for o in (1, 2, 3, 4, 8)}
    orders = tuple(o for o in (1, 2, 3, 4, 8) if bits[o])       # realised: tuple construction
    V.assume(len(orders) > 0)
    ring_mode = V.choice('q_ring', [None, True, False])
    q = QueryBond(orders, ring_mode)
    b = object.__new__(Bond)
    o = V.int('b_order', 1, 8)
    V.assume(s_or(o == 1, o == 2, o == 3, o == 4, o == 8))
    r = V.bool('b_in_ring')
    b._order = o
    b._in_ring = r
    b._stereo = None
    got = q == b
    want = s_and(member(o, orders), True if ring_mode is None else s_iff(r, ring_mode))
    if falsify:
        want = s_and(want, o != 2)
    V.prove(s_iff(got, want), 'query bond matches exactly the listed orders and the requested ring state',
            {'orders': orders, 'ring': ring_mode})
    oc = int(o)          # comparison with a bare int: isinstance(other, int) in the library, so realised
    V.prove((q == oc) == (oc in orders), 'query bond compared with a bare order ignores the ring state')
    V.observe('got', got)


def h_plain_bond_eq(V):
    from chython.containers.bonds import Bond
    b1, b2 = object.__new__(Bond), object.__new__(Bond)
    o1, o2 = V.int('o1', 1, 8), V.int('o2', 1, 8)
    b1._order, b2._order = o1, o2
    V.prove(s_iff(b1 == b2, o1 == o2), 'bonds compare by order')
    V.prove(s_iff(b1 == int(o2), o1 == int(o2)), 'bond compares with an int by order')
    V.observe('eq', b1 == b2)


def h_calc_labels(V, centre='C', nbrs=('C', 'N', 'H'), falsify=False):
    """star environment, every bond order symbolic: labels equal the documented counts"""
    from chython import MoleculeContainer
    from chython.containers.bonds import Bond
    pt = _classes()
    m = MoleculeContainer()
    m._atoms[1] = getattr(pt, centre)()
    m._bonds[1] = {}
    orders = []
    for i, el in enumerate(nbrs, 2):
        m._atoms[i] = getattr(pt, el)()
        b = object.__new__(Bond)
        o = V.int(f'o{i}', 1, 8)
        V.assume(s_or(o == 1, o == 2, o == 3, o == 4, o == 8))
        b._order = o
        b._stereo = None
        m._bonds[1][i] = b
        m._bonds[i] = {1: b}
        orders.append((el, o))
    m.calc_labels()
    a = m._atoms[1]
    real = [(el, o) for el, o in orders]
    n_nb = count_true(*[o != 8 for _, o in real]) if real else 0
    n_het = count_true(*[o != 8 for el, o in real if el not in ('C', 'H')]) if any(el not in ('C', 'H') for el, _ in real) else 0
    n_eh = count_true(*[o != 8 for el, o in real if el == 'H']) if any(el == 'H' for el, _ in real) else 0
    n4 = count_true(*[o == 4 for _, o in real]) if real else 0
    n3 = count_true(*[o == 3 for _, o in real]) if real else 0
    n2 = count_true(*[o == 2 for _, o in real]) if real else 0
    hyb = ite(n4 > 0, 4, ite(s_or(n3 > 0, n2 > 1), 3, ite(n2 == 1, 2, 1))) if real else 1
    if falsify:
        hyb = ite(n2 == 1, 3, hyb)
    V.prove(a.neighbors == n_nb, 'neighbour count excludes coordinate bonds')
    V.prove(a.heteroatoms == n_het, 'heteroatom count = non-C, non-H neighbours')
    V.prove(a.explicit_hydrogens == n_eh, 'explicit hydrogen count')
    V.prove(a.hybridization == hyb, 'hybridisation follows the documented rule', {'centre': centre, 'nbrs': list(nbrs)})
    V.prove(a.in_ring is False and a.ring_sizes == set(), 'a star has no ring marks')
    V.observe('hyb', a.hybridization)


# ------------------------------------------------------------------------------------------ SMARTS text

ATOM_HEADS = ['C', 'N', 'O', 'A', 'M', 'C,N', 'C,N,O', '#6', '#7,#8', 'Cl', 'Fe']
PRIMS = {
    'D': ('neighbors', [(0,), (1,), (2,), (3,), (1, 2), (2, 3), (0, 14)]),
    'h': ('implicit_hydrogens', [(0,), (1,), (2,), (0, 1), (1, 2, 3)]),
    'x': ('heteroatoms', [(0,), (1,), (2,), (0, 1), (1, 3)]),
    'z': ('hybridization', [(1,), (2,), (3,), (4,), (1, 2), (2, 4)]),
    'r': ('ring_sizes', [(3,), (5,), (6,), (5, 6), (3, 4, 5)]),
}
EXTRA = ['', 'a', 'A', '!R', 'M']
CHARGES = ['', '+', '-', '+2', '--', '+3', '-4']   # three-sign spellings are SMILES-only (chg_re takes two characters)
ISOTOPES = ['', '13', '2']


def h_smarts_atom(V, ngroups=2, falsify=False, heads=None, small=False):
    """SMARTS atom text assembled from symbolic choices of documented primitives -> query atom with that meaning"""
    import chython
    import chython.periodictable as pt
    from chython.files.daylight import smarts as smarts_mod
    from itertools import count
    smarts_mod.global_free_masked = count(10 ** 9 + 1)
    head = V.choice('head', heads or ATOM_HEADS)
    iso = V.choice('iso', ISOTOPES[:2] if small else ISOTOPES)
    chg = V.choice('chg', CHARGES[:4] if small else CHARGES)
    groups = []
    used = set()
    for g in range(ngroups):
        kind = V.choice(f'g{g}', ['-'] + sorted(PRIMS) + ['extra'])
        if kind == '-':
            continue
        if kind == 'extra':
            e = V.choice(f'g{g}e', EXTRA[1:])
            groups.append(('extra', e))
        else:
            if kind in used:
                continue          # a repeated primitive overrides the earlier one; keep the oracle simple
            used.add(kind)
            vals = V.choice(f'g{g}v', PRIMS[kind][1][1:4] if small else PRIMS[kind][1])
            groups.append((kind, vals))
    text = '[' + iso + head
    for kind, v in groups:
        text += ';' + (v if kind == 'extra' else ','.join(f'{kind}{x}' for x in v))
    text += chg + ']'
    if iso and (head in ('A', 'M') or ',' in head):
        try:
            chython.smarts(text)
            ok = True
        except (TypeError, ValueError):
            ok = False
        V.prove(not ok, 'an isotope on a non-element head is rejected', {'text': text})
        return
    if 'M' == head and (iso or chg or any(k in ('h', 'x', 'r') or (k == 'extra' and v in ('!R',)) for k, v in groups)):
        # any-metal carries neither isotope/charge nor H/hetero/ring constraints: construction must fail loudly
        try:
            chython.smarts(text)
            ok = True
        except (TypeError, ValueError):
            ok = False
        V.prove(not ok, 'any-metal rejects constraints it cannot carry', {'text': text})
        return
    if head == 'M' and any(k == 'extra' and v in ('M',) for k, v in groups):
        pass
    q = chython.smarts(text)
    V.prove(len(q) == 1, 'one atom', {'text': text})
    n, a = next(iter(q.atoms()))
    # element part
    if head == 'A':
        V.prove(isinstance(a, pt.AnyElement), 'A is any element', {'text': text})
    elif head == 'M':
        V.prove(isinstance(a, pt.AnyMetal), 'M is any metal', {'text': text})
    elif ',' in head:
        want = tuple(refs(x) for x in head.split(','))
        V.prove(isinstance(a, pt.ListElement) and tuple(a._elements) == want, 'element list', {'text': text})
    else:
        V.prove(isinstance(a, pt.QueryElement) and a.atomic_symbol == refs(head), 'single element', {'text': text})
    exp = {'neighbors': (), 'implicit_hydrogens': (), 'heteroatoms': (), 'hybridization': (), 'ring_sizes': ()}
    masked = False
    for kind, v in groups:
        if kind == 'extra':
            if v == 'a':
                exp['hybridization'] = (4,)
            elif v == '!R':
                exp['ring_sizes'] = (0,)
            elif v == 'M':
                masked = True
        else:
            exp[PRIMS[kind][0]] = tuple(sorted(v))
    if falsify:
        exp['neighbors'] = exp['neighbors'] + (9,)
    for k, v in exp.items():
        if head == 'M' and k in ('implicit_hydrogens', 'heteroatoms', 'ring_sizes'):
            continue
        V.prove(tuple(getattr(a, k)) == v, f'primitive {k} has the documented meaning', {'text': text, 'got': getattr(a, k)})
    V.prove(a.masked == masked, 'masked mark', {'text': text})
    if head != 'M':
        want_c = {'': 0, '+': 1, '-': -1, '+2': 2, '--': -2, '+3': 3, '-4': -4}[chg]
        V.prove(a.charge == want_c, 'charge spelling', {'text': text})
        if isinstance(a, pt.QueryElement):
            V.prove(a.isotope == (int(iso) if iso else None), 'isotope', {'text': text})
    V.observe('text', text)


def refs(x):
    from vlib.refsmiles import ELEMENTS
    if x.startswith('#'):
        return ELEMENTS[int(x[1:]) - 1]
    return x


BAD_SMARTS = ['[C&D2]', '[C;X2]', '[C;R2]', '[$(CC)]', '[C;D2,h1]', '[C;v4]', '[;D2]', '[C;Dx]', 'C-;!!@C', 'C;C', 'C,C',
              'C!C', 'C-,C', 'C-;C', 'C!;C', '[C', 'C]', 'C(', 'C)', 'C1', 'C%1', '[]', 'C=,', 'C-;@', '=C',
              '[Xx]', '[C;D]', '[D2]', '[C,]', '[#]', '[#200]', '[C;D15]', '[C;z5]', '[C;r2]', '[C+5]', '[M+]', '[M;h1]']


def h_smarts_rejects(V):
    import chython
    from chython.exceptions import IncorrectSmarts, IncorrectSmiles
    text = V.choice('bad', BAD_SMARTS)
    try:
        chython.smarts(text)
        outcome = 'accepted'
    except (IncorrectSmarts, IncorrectSmiles):
        outcome = 'rejected'
    V.prove(outcome == 'rejected', 'SMARTS outside the documented subset is rejected with the invalid-SMARTS error',
            {'text': text})
    V.observe('text', text)


BOND_TEXTS = [('-', (1,), None), ('=', (2,), None), ('#', (3,), None), (':', (4,), None), ('~', (8,), None),
              ('-,=', (1, 2), None), ('=,:', (2, 4), None), ('!-', (2, 3, 4), None), ('!:', (1, 2, 3), None),
              ('!=', (1, 3, 4), None), ('!#', (1, 2, 4), None),
              ('-;@', (1,), True), ('-;!@', (1,), False), ('=;@', (2,), True), ('-,=;@', (1, 2), True),
              ('!:;!@', (1, 2, 3), False), ('', (1,), None)]


def h_smarts_bond(V, falsify=False):
    import chython
    k = V.choice('bond', list(range(len(BOND_TEXTS))))
    text, orders, ring = BOND_TEXTS[k]
    q = chython.smarts(f'[C;D1]{text}[N;D1]')
    (n, m, b), = list(q.bonds())
    if falsify:
        orders = orders + (8,)
    V.prove(tuple(b.order) == tuple(sorted(orders)), 'bond primitive has the documented order list', {'text': text,
            'got': b.order})
    V.prove(b.in_ring is ring, 'ring / non-ring bond mark', {'text': text, 'got': b.in_ring})
    V.observe('text', text)


# ------------------------------------------------------------------------------------------ stereo marks in queries

def _query_of(mol):
    from chython import QueryContainer
    from chython.periodictable import QueryElement
    from chython.containers.bonds import QueryBond
    q = QueryContainer('')
    for n, a in mol.atoms():
        q.add_atom(QueryElement.from_atom(a, stereo=True), n)
    for n, m, b in mol.bonds():
        q.add_bond(n, m, QueryBond.from_bond(b, stereo=True))
    return q


def h_query_stereo(V, smi, flip=False):
    """query cut from a stereo seed (marks kept) vs every random-order spelling of the seed / of a stereoisomer"""
    import chython
    src = mol_of(smi)
    q = _query_of(src)
    m = src.copy()
    if flip:
        elems = [('a', n) for n, a in m.atoms() if a.stereo is not None] + \
                [('b', (i, j)) for i, j, b in m.bonds() if b.stereo is not None]
        which = V.choice('flip', elems)
        if which[0] == 'a':
            m._atoms[which[1]]._stereo = not m._atoms[which[1]]._stereo
        else:
            i, j = which[1]
            m._bonds[i][j]._stereo = not m._bonds[i][j]._stereo
        m.flush_cache()
    text = format(m, 'r')
    t = chython.smiles(text)
    found = list(q.get_mapping(t, _cython=False, automorphism_filter=False))
    if flip:
        V.prove(len(found) == 0, 'a stereo query never matches a spelling of the other stereoisomer', {'text': text})
    else:
        V.prove(len(found) >= 1, 'a stereo query matches every spelling of its own molecule', {'text': text})
    # without marks the skeleton always matches
    plain = _query_of(src)
    for _, a in plain.atoms():
        a._stereo = None
    for *_, b in plain.bonds():
        b._stereo = None
    V.prove(len(list(plain.get_mapping(t, _cython=False, automorphism_filter=False))) >= 1,
            'the unmarked query matches both stereoisomers', {'text': text})
    V.observe('text', text)


FROM_ATOM = ['CC(C)(C)C(=O)Cl', 'CCN', 'C[NH3+]', 'C1CC1O', '[CH3]']


def h_from_atom(V, falsify=False):
    """a query atom built from a molecule atom constrains exactly the properties asked for, each to the value the source
    atom has (also when that value is 0): source atom, requested properties and target atom are solver choices"""
    import chython
    from chython.periodictable.base.query import QueryElement
    src = chython.smiles(V.choice('source', FROM_ATOM))
    tgt = chython.smiles(V.choice('target', FROM_ATOM))
    n = V.choice('source_atom', sorted(src._atoms)[:5])
    m = V.choice('target_atom', sorted(tgt._atoms)[:5])
    flags = {k: bool(V.bool(k)) for k in ('neighbors', 'hybridization', 'heteroatoms', 'hydrogens', 'ring_sizes')}
    a, b = src._atoms[n], tgt._atoms[m]
    q = QueryElement.from_atom(a, **flags)
    want = (a.atomic_number, a.isotope, a.charge, a.is_radical) == (b.atomic_number, b.isotope, b.charge, b.is_radical)
    for k, attr in (('neighbors', 'neighbors'), ('hybridization', 'hybridization'), ('heteroatoms', 'heteroatoms'),
                    ('hydrogens', 'implicit_hydrogens')):
        if flags[k]:
            want = want and getattr(a, attr) == getattr(b, attr)
    if flags['ring_sizes']:
        # a source atom outside rings hands over an empty size list, which constrains nothing; otherwise one common size
        want = want and (not a.ring_sizes or bool(set(a.ring_sizes) & set(b.ring_sizes)))
    if falsify:
        want = not want
    V.prove(bool(q == b) == want, 'a query atom built from an atom matches exactly the atoms that share the requested properties',
            {'source': str(src), 'atom': n, 'target': str(tgt), 'image': m, 'flags': flags})
    V.observe('want', want)


HARNESSES = {
    'from_atom': h_from_atom,
    'atom_eq': h_atom_eq, 'list_elements': h_list_elements, 'ring_labels': h_ring_labels, 'bond_eq': h_bond_eq, 'plain_bond_eq': h_plain_bond_eq, 'calc_labels': h_calc_labels,
    'smarts_atom': h_smarts_atom, 'smarts_rejects': h_smarts_rejects, 'smarts_bond': h_smarts_bond,
    'query_stereo': with_random(h_query_stereo),
}

STEREO_SEEDS = ['C[C@H](N)O', 'F/C=C/Cl', 'F[C@](Cl)(Br)I', 'C[C@H](O)/C=C/F', 'FC=[C@]=CCl']
STEREO_SEEDS_T = STEREO_SEEDS + ['C[C@H]1CC[C@@H](O)O1', 'N[C@@]1(C)CCCO1', 'F/C(Cl)=C(/Br)I']


def jobs(tier):
    T = tier == 'thorough'
    lens = [0, 1, 2, 3] if T else [0, 2]
    J = []
    J.append({'harness': 'from_atom', 'budget_s': 600, 'validate_every': 200, 'max_failures': 10})
    J.append({'harness': 'from_atom', 'params': {'falsify': True}, 'twin': True, 'budget_s': 60, 'max_failures': 1, 'validate': False})
    pairs = [('element', 'C', 'C'), ('element', 'C', 'N'), ('any', 'A', 'C'), ('list', 'C,N', 'C'), ('list', 'C,N', 'O'),
             ('metal', 'M', 'Fe'), ('metal', 'M', 'C'), ('metal', 'M', 'He'), ('metal', 'M', 'Sb'), ('metal', 'M', 'Rn'),
             ('metal', 'M', 'Na'), ('metal', 'M', 'Og'), ('metal', 'M', 'At'), ('metal', 'M', 'Po')]
    if T:
        pairs += [('element', 'N', 'N'), ('element', 'Fe', 'Fe'), ('any', 'A', 'Fe'), ('list', 'C,N', 'N'),
                  ('list', 'Cl,Br,I', 'Br'), ('metal', 'M', 'Ge'), ('metal', 'M', 'U')]
    for kind, q, a in pairs:
        J.append({'harness': 'atom_eq', 'params': {'kind': kind, 'q_el': q, 'a_el': a, 'lens': lens}, 'budget_s': 1200,
                  'validate_every': 50, 'weight': 900 if kind != 'metal' else 50})
        if kind != 'metal':
            J.append({'harness': 'atom_eq', 'params': {'kind': kind, 'q_el': q, 'a_el': a, 'rings': True}, 'budget_s': 600,
                      'validate_every': 50, 'weight': 300})
    J.append({'harness': 'atom_eq', 'params': {'kind': 'element', 'q_el': 'C', 'a_el': 'C', 'lens': [1], 'falsify': True},
              'twin': True, 'budget_s': 300, 'max_failures': 1, 'validate': False})
    for k in range(len(LISTS)):
        J.append({'harness': 'list_elements', 'params': {'k': k}, 'budget_s': 300, 'max_failures': 20})
    for sh in RING_SHAPES:
        J.append({'harness': 'ring_labels', 'params': {'shape': sh}, 'budget_s': 600, 'validate_every': 10})
    J.append({'harness': 'ring_labels', 'params': {'shape': 'bicyclopropyl', 'falsify': True}, 'twin': True, 'budget_s': 300,
              'max_failures': 1})
    J.append({'harness': 'bond_eq', 'budget_s': 300})
    J.append({'harness': 'bond_eq', 'params': {'falsify': True}, 'twin': True, 'budget_s': 300, 'max_failures': 1})
    J.append({'harness': 'plain_bond_eq', 'budget_s': 60})
    stars = [('C', ()), ('C', ('C',)), ('C', ('C', 'N')), ('C', ('C', 'N', 'H')), ('N', ('C', 'O', 'H', 'F')),
             ('S', ('O', 'O', 'C', 'C'))]
    if T:
        stars += [('C', ('C', 'C', 'C', 'C')), ('P', ('O', 'O', 'O', 'C', 'H')), ('Fe', ('N', 'N', 'C', 'O'))]
    for c, nb in stars:
        J.append({'harness': 'calc_labels', 'params': {'centre': c, 'nbrs': list(nb)}, 'budget_s': 600,
                  'validate_every': 20})
    J.append({'harness': 'calc_labels', 'params': {'centre': 'C', 'nbrs': ['C', 'N'], 'falsify': True}, 'twin': True,
              'budget_s': 300, 'max_failures': 1})
    for hd in ATOM_HEADS:
        J.append({'harness': 'smarts_atom', 'params': {'ngroups': 2, 'heads': [hd], 'small': not T}, 'budget_s': 1500,
                  'validate_every': 100, 'weight': 1500})
    J.append({'harness': 'smarts_atom', 'params': {'ngroups': 1, 'falsify': True}, 'twin': True, 'budget_s': 300,
              'max_failures': 1, 'validate': False})
    J.append({'harness': 'smarts_rejects', 'budget_s': 120, 'max_failures': 50})
    J.append({'harness': 'smarts_bond', 'budget_s': 120})
    J.append({'harness': 'smarts_bond', 'params': {'falsify': True}, 'twin': True, 'budget_s': 120, 'max_failures': 1})
    for s in (STEREO_SEEDS_T if T else STEREO_SEEDS):
        J.append({'harness': 'query_stereo', 'params': {'smi': s}, 'budget_s': 600, 'validate_every': 10})
        J.append({'harness': 'query_stereo', 'params': {'smi': s, 'flip': True}, 'budget_s': 600, 'validate_every': 10})
    return J
