"""C04 Implicit hydrogen counts and valence errors follow the element valence rules."""
from collections import Counter

PROPERTY = 'C04'

META = {
    'functions_encoded': [
        'chython/containers/molecule.py: MoleculeContainer.calc_implicit, check_implicit, brutto, molecular_charge, '
        'is_radical, molecular_mass',
        'chython/periodictable/base/element.py: Element.valence_rules, _compiled_valence_rules',
        'chython/periodictable/group*.py: _common_valences, _valences_exceptions (raw tuples read by the oracle)',
        'chython/algorithms/standardize/molecule.py: check_valence',
    ],
    'bounds': {
        'quick': 'star environments: centre in {B, C, N, O, F, Si, P, S, Cl, Br, I, Se}, charge -1..1, radical flag, 0..3 '
                 'neighbours over orders {1,2,3} x {H, C, N, O, F}; aromatic carbon / hetero-atom cases; organic-subset '
                 'models with and without radicals',
        'thorough': 'adds As, Al, Fe, Cu, Zn, Li, Mg as centres; charge -2..2; up to 4 neighbours from {H, C, N, O, F} '
                    '(one centre with 7 neighbour elements took 21 core-minutes: the wider set is outside what is run)',
    },
    'outside_claim': ['more than 4 neighbours; neighbours outside the listed classes (exception environments naming other '
                      'elements are only reached through those classes)',
                      'the independent valence model is the OpenSMILES organic-subset rule on neutral closed-shell B, C, N, O, F, Cl, Br, I with bond order sum <= normal valence; a comparison with RDKit over charged / hypervalent states was tried and dropped: the two toolkits legitimately differ there (e.g. fluoronium), so it could only raise false alarms'],
    'stubs': [],
    'assumptions': ['orders, classes, charge and radical flag are dictionary keys in the code under test: solver-enumerated '
                    'finite domain (exhaustive within the bounds), not a generalising proof'],
}

NEIGHBOURS = ['H', 'C', 'N', 'O', 'F', 'S', 'Cl']
NUM = {'H': 1, 'C': 6, 'N': 7, 'O': 8, 'F': 9, 'S': 16, 'Cl': 17}


def table_rules(cls):
    """my own reading of the rule tables: ordered list of (charge, radical, valence) -> [(environment multiset, H)]"""
    from chython.periodictable import Element
    a = object.__new__(cls)
    cv = tuple(a._common_valences)
    ex = tuple(a._valences_exceptions)
    names = {c.__name__: c.atomic_number.fget(None) for c in Element.__subclasses__()}
    rules = {}

    def add(key, env, h):
        rules.setdefault(key, []).append((env, h))
    if cv and cv[0] and a.atomic_number != 1:
        for h in range(cv[0] + 1):
            add((0, False, cv[0] - h), Counter(), h)
        for v in cv[1:]:
            add((0, False, v), Counter(), 0)
    else:
        for v in cv:
            add((0, False, v), Counter(), 0)
    for charge, rad, implicit, env in ex:
        c = Counter((o, names[e]) for o, e in env)
        explicit = sum(o for o, _ in env)
        if implicit:
            for h in range(implicit + 1):
                add((charge, rad, explicit + implicit - h), c, h)
        else:
            add((charge, rad, explicit), c, 0)
    return rules


_RULES = {}


def expected_h(cls, charge, radical, nbrs):
    """nbrs: list of (order, atomic number) with orders 1,2,3 (no aromatic / coordinate bonds)"""
    if cls.__name__ == 'H':
        return 0
    if cls not in _RULES:
        _RULES[cls] = table_rules(cls)
    have = Counter(nbrs)
    key = (charge, radical, sum(o for o, _ in nbrs))
    for env, h in _RULES[cls].get(key, ()):
        if all(have[k] >= c for k, c in env.items()):
            return h
    return None


def build_star(centre, charge, radical, nbrs, aromatic=0):
    """MoleculeContainer: centre atom 1 with the given neighbours (and `aromatic` aromatic bonds to carbons)"""
    from chython import MoleculeContainer
    from chython.containers.bonds import Bond
    import chython.periodictable as pt
    m = MoleculeContainer()
    c = getattr(pt, centre)(charge=charge, is_radical=radical)
    m._atoms[1] = c
    m._bonds[1] = {}
    k = 2
    for o, el in nbrs:
        m._atoms[k] = getattr(pt, el)()
        b = Bond(o)
        m._bonds[1][k] = b
        m._bonds[k] = {1: b}
        k += 1
    for _ in range(aromatic):
        m._atoms[k] = pt.C()
        b = Bond(4)
        m._bonds[1][k] = b
        m._bonds[k] = {1: b}
        k += 1
    m.calc_labels()
    return m


def h_star(V, centre, kmax=3, cmax=2, falsify=False, nset=None):
    import chython.periodictable as pt
    NEIGHBOURS = list(nset) if nset else globals()['NEIGHBOURS']
    charge = int(V.int('charge', -cmax, cmax))
    radical = bool(V.bool('radical'))
    k = int(V.int('k', 0, kmax))
    K = len(NEIGHBOURS)
    codes = []
    prev = None
    for i in range(k):
        c = V.int(f'n{i}', 0, 3 * K - 1)
        if prev is not None:
            V.assume(prev <= c)          # a multiset: order of the neighbours does not matter to the oracle
        prev = c
        codes.append(c)
    codes = [int(c) for c in codes]
    nbrs = [(c // K + 1, NEIGHBOURS[c % K]) for c in codes]
    m = build_star(centre, charge, radical, nbrs)
    m.calc_implicit(1)
    got = m._atoms[1].implicit_hydrogens
    want = expected_h(getattr(pt, centre), charge, radical, [(o, NUM[e]) for o, e in nbrs])
    if falsify and want is not None:
        want += 1
    info = {'centre': centre, 'charge': charge, 'radical': radical, 'neighbours': nbrs, 'got': got, 'want': want}
    V.prove(got == want, 'hydrogen count is the first matching rule of the element tables (None when no rule matches)', info)
    # check_implicit accepts exactly the counts some rule allows
    for h in range(0, 5):
        allowed = any(all(Counter([(o, NUM[e]) for o, e in nbrs])[kk] >= c for kk, c in env.items()) and hh == h
                      for env, hh in _RULES[getattr(pt, centre)].get((charge, radical, sum(o for o, _ in nbrs)), ()))
        V.prove(m.check_implicit(1, h) == allowed, 'check_implicit accepts exactly the counts a rule allows',
                dict(info, h=h))
    # neighbours are terminal atoms with their own hydrogens: compute all, then totals
    for n in list(m._atoms):
        m.calc_implicit(n)
    bad = [n for n, a in m.atoms() if a.implicit_hydrogens is None]
    V.prove(sorted(m.check_valence()) == sorted(bad), 'check_valence reports exactly the atoms without a valence state', info)
    V.prove((1 in bad) == (want is None), 'the centre is reported exactly when no rule matches', info)
    V.prove(int(m) == charge and m.is_radical == radical, 'total charge and radical flag are sums over atoms', info)
    if not bad:
        br = Counter(a.atomic_symbol for _, a in m.atoms())
        br['H'] += sum(a.implicit_hydrogens for _, a in m.atoms())
        V.prove({k_: v for k_, v in m.brutto.items() if v} == {k_: v for k_, v in br.items() if v},
                'formula counts atoms and implicit hydrogens', info)
        hm = pt.H().atomic_mass
        mass = sum(a.atomic_mass + a.implicit_hydrogens * hm for _, a in m.atoms())
        V.prove(abs(float(m) - mass) < 1e-9, 'mass is the sum over atoms including hydrogens', info)
    V.observe('h', got)


def h_aromatic(V, centre='C'):
    """aromatic ring atoms: carbon special cases, everything else unknown until kekule()"""
    charge = int(V.int('charge', -1, 1))
    radical = bool(V.bool('radical'))
    ar = int(V.int('aromatic', 1, 3))
    k = int(V.int('k', 0, 2))
    nbrs = [(int(V.int(f'o{i}', 1, 2)), V.choice(f'e{i}', ['C', 'O', 'H'])) for i in range(k)]
    m = build_star(centre, charge, radical, nbrs, aromatic=ar)
    m.calc_implicit(1)
    got = m._atoms[1].implicit_hydrogens
    s = sum(o for o, _ in nbrs)
    if centre == 'C' and not charge and not radical:
        want = {2: {0: 1, 1: 0}.get(s), 3: 0 if s == 0 else None}.get(ar)
    else:
        want = None
    V.prove(got == want, 'aromatic carbon has one hydrogen unless substituted; other aromatic atoms are left unknown',
            {'centre': centre, 'charge': charge, 'radical': radical, 'aromatic': ar, 'neighbours': nbrs, 'got': got,
             'want': want})
    V.prove(m.check_implicit(1, 0) is False, 'check_implicit refuses aromatic atoms')
    V.observe('h', got)


NORMAL_VALENCE = {'B': 3, 'C': 4, 'N': 3, 'O': 2, 'F': 1, 'Cl': 1, 'Br': 1, 'I': 1}


RADICAL_VALENCE = {'C': 4, 'N': 3, 'O': 2, 'S': 2, 'B': 3}


def h_organic_radical(V, centre):
    """independent model for neutral mono-radicals of the organic subset: one valence is used by the unpaired electron"""
    k = int(V.int('k', 0, 3))
    els = ['H', 'C', 'O', 'Cl']
    prev, codes, total = None, [], 0
    for i in range(k):
        c = V.int(f'n{i}', 0, 2 * len(els) - 1)
        if prev is not None:
            V.assume(prev <= c)
        prev = c
        total = total + (c // len(els) + 1)
        V.assume(total <= RADICAL_VALENCE[centre] - 1)
        codes.append(c)
    codes = [int(c) for c in codes]
    nbrs = [(c // len(els) + 1, els[c % len(els)]) for c in codes]
    s = sum(o for o, _ in nbrs)
    m = build_star(centre, 0, True, nbrs)
    m.calc_implicit(1)
    got = m._atoms[1].implicit_hydrogens
    want = RADICAL_VALENCE[centre] - 1 - s
    V.prove(got == want, 'neutral radical of the organic subset: hydrogens = normal valence - 1 - bond order sum',
            {'centre': centre, 'neighbours': nbrs, 'got': got, 'want': want})
    V.observe('h', got)


def h_organic(V, centre, full=False):
    """independent valence model (OpenSMILES organic subset): a neutral closed-shell atom whose bond orders sum to at most
    its normal valence carries the difference as hydrogens"""
    k = int(V.int('k', 0, 4))
    els = ['H', 'C', 'N', 'O', 'F', 'S', 'Cl'] if full else ['H', 'C', 'O', 'Cl']
    prev = None
    codes = []
    total = 0
    for i in range(k):
        c = V.int(f'n{i}', 0, 3 * len(els) - 1)
        if prev is not None:
            V.assume(prev <= c)
        prev = c
        total = total + (c // len(els) + 1)
        V.assume(total <= NORMAL_VALENCE[centre])      # prune before the value is realised
        codes.append(c)
    codes = [int(c) for c in codes]
    nbrs = [(c // len(els) + 1, els[c % len(els)]) for c in codes]
    s = sum(o for o, _ in nbrs)
    m = build_star(centre, 0, False, nbrs)
    m.calc_implicit(1)
    got = m._atoms[1].implicit_hydrogens
    V.prove(got == NORMAL_VALENCE[centre] - s, 'neutral organic-subset atom: hydrogens = normal valence - bond order sum',
            {'centre': centre, 'neighbours': nbrs, 'got': got, 'want': NORMAL_VALENCE[centre] - s})
    V.observe('h', got)


HARNESSES = {'star': h_star, 'aromatic': h_aromatic, 'organic': h_organic, 'organic_radical': h_organic_radical}


def finding_key(job, failure):
    k = f"{job['harness']}:{failure['label']}:{job['params'].get('centre')}"
    info = failure.get('info') or {}
    return k


def jobs(tier):
    T = tier == 'thorough'
    centres = ['B', 'C', 'N', 'O', 'F', 'Si', 'P', 'S', 'Cl', 'Br', 'I', 'Se']
    if T:
        centres += ['As', 'Al', 'Fe', 'Cu', 'Zn', 'Li', 'Mg']
    J = []
    for c in centres:
        J.append({'harness': 'star', 'params': {'centre': c, 'kmax': 4 if T else 3, 'cmax': 2 if T else 1,
                                                'nset': ['H', 'C', 'N', 'O', 'F']},
                  'budget_s': 3000,
                  'validate_every': 100, 'max_failures': 20, 'weight': 1000})
    J.append({'harness': 'star', 'params': {'centre': 'C', 'kmax': 1, 'cmax': 0, 'falsify': True}, 'twin': True,
              'budget_s': 120, 'max_failures': 1})
    for c in ['C', 'N', 'O', 'S', 'B']:
        J.append({'harness': 'aromatic', 'params': {'centre': c}, 'budget_s': 600, 'validate_every': 20})
    for c in RADICAL_VALENCE:
        J.append({'harness': 'organic_radical', 'params': {'centre': c}, 'budget_s': 300, 'validate_every': 20, 'max_failures': 20})
    for c in NORMAL_VALENCE:
        J.append({'harness': 'organic', 'params': {'centre': c, 'full': T}, 'budget_s': 600, 'validate_every': 50, 'max_failures': 20})
    return J
