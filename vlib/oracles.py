"""independent oracles (none of them imports chython) usable on plain values and on minisym proxies"""
import z3
from .minisym import SymInt, SymBool, SymReal, _i, _r, _b, is_sym


def select(idx, values):
    """values[idx] without realising idx (If-chain); values are ints or SymInts"""
    if isinstance(idx, int):
        return values[idx]
    e = _i(values[-1])
    for j in range(len(values) - 2, -1, -1):
        e = z3.If(idx.e == j, _i(values[j]), e)
    return SymInt(e)


def position(x, seq):
    """index of x in seq (x is known to be a member); If-chain on proxies"""
    if not is_sym(x) and not any(is_sym(s) for s in seq):
        return seq.index(x)
    e = z3.IntVal(len(seq) - 1)
    for j in range(len(seq) - 2, -1, -1):
        e = z3.If(_i(x) == _i(seq[j]), z3.IntVal(j), e)
    return SymInt(e)


def odd_permutation(p):
    """True iff the sequence of distinct integers p has an odd number of inversions (plain or symbolic)"""
    n = len(p)
    if not any(is_sym(x) for x in p):
        return sum(1 for i in range(n) for j in range(i + 1, n) if p[i] > p[j]) % 2 == 1
    inv = z3.Sum([z3.If(_i(p[i]) > _i(p[j]), 1, 0) for i in range(n) for j in range(i + 1, n)])
    return SymBool(inv % 2 == 1)


def xor(a, b):
    if isinstance(a, bool) and isinstance(b, bool):
        return a != b
    return SymBool(z3.Xor(_b(a), _b(b)))


def det3(a, b, c):
    """determinant of the 3x3 matrix with rows a, b, c"""
    return (a[0] * (b[1] * c[2] - b[2] * c[1]) - a[1] * (b[0] * c[2] - b[2] * c[0])
            + a[2] * (b[0] * c[1] - b[1] * c[0]))


def sub3(p, q):
    return (p[0] - q[0], p[1] - q[1], p[2] - q[2])


def cross2(a, b):
    return a[0] * b[1] - a[1] * b[0]


def sub2(p, q):
    return (p[0] - q[0], p[1] - q[1])


def _calibrate_at_sign():
    # OpenSMILES: "@": looking from the first neighbour towards the centre, the remaining three are listed
    # anticlockwise.  Put the viewer on +z looking down at the usual x-right / y-up plane.
    from math import cos, sin, pi
    p0 = (0.0, 0.0, 1.0)
    ring = [(cos(2 * pi * k / 3), sin(2 * pi * k / 3), -0.3) for k in range(3)]   # anticlockwise seen from +z
    d = det3(sub3(ring[0], p0), sub3(ring[1], p0), sub3(ring[2], p0))
    assert abs(d) > 1e-6
    return d > 0


AT_IS_POSITIVE_DET = _calibrate_at_sign()


def smiles_at_from_points(pts):
    """for four 3-D points in written neighbour order: (is_at, degenerate) where is_at means the OpenSMILES mark
    '@' (anticlockwise seen from the first), by the sign of det[p1-p0, p2-p0, p3-p0]"""
    d = det3(sub3(pts[1], pts[0]), sub3(pts[2], pts[0]), sub3(pts[3], pts[0]))
    return (d > 0) if AT_IS_POSITIVE_DET else (d < 0), d == 0


def table_lookup(table, key):
    """(present, truth value) of a {tuple of ints: bool} table at a plain or symbolic key, without realising it"""
    if not any(is_sym(k) for k in key):
        k = tuple(int(x) for x in key)
        return k in table, bool(table.get(k, False))
    def hit(t):
        return z3.And(*[_i(a) == b for a, b in zip(key, t)])
    present = z3.Or(*[hit(t) for t in table])
    value = z3.Or(*[hit(t) for t, v in table.items() if v])
    return SymBool(present), SymBool(value)


def count_true(*xs):
    if not any(is_sym(x) for x in xs):
        return sum(bool(x) for x in xs)
    return SymInt(z3.Sum([z3.If(_b(x), 1, 0) for x in xs]))
