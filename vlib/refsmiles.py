"""Independent reader for the OpenSMILES subset the properties talk about.  Written from the OpenSMILES text, imports
nothing from chython.  Works on plain strings and on sequences of symbolic characters (all character tests go through
the ch_* helpers, which fork under minisym when the character is a proxy).

Language (the "supported SMILES language" of C03): organic-subset atoms B C N O P S F Cl Br I, aromatic b c n o p s,
bracket atoms [isotope? symbol chirality? Hcount? charge? map?] with isotope 1-999, H / H1-H4, the charge spellings
+ ++ +++ ++++ +1..+4 (and minus), map :digits, chirality @ / @@; bonds - = # : ~ / \\ ; branches; ring closures
1-9 and %10-%99 with optional bond symbol; dot.  Anything else -> RefReject.
"""

ORGANIC = ('B', 'C', 'N', 'O', 'P', 'S', 'F', 'I')      # plus Cl, Br handled by look-ahead
AROMATIC = 'cnopsb'
BRACKET_AROMATIC = ('c', 'n', 'o', 'p', 's', 'b', 'as', 'se', 'te')

ELEMENTS = ('H He Li Be B C N O F Ne Na Mg Al Si P S Cl Ar K Ca Sc Ti V Cr Mn Fe Co Ni Cu Zn Ga Ge As Se Br Kr Rb Sr '
            'Y Zr Nb Mo Tc Ru Rh Pd Ag Cd In Sn Sb Te I Xe Cs Ba La Ce Pr Nd Pm Sm Eu Gd Tb Dy Ho Er Tm Yb Lu Hf Ta W '
            'Re Os Ir Pt Au Hg Tl Pb Bi Po At Rn Fr Ra Ac Th Pa U Np Pu Am Cm Bk Cf Es Fm Md No Lr Rf Db Sg Bh Hs Mt Ds '
            'Rg Cn Nh Fl Mc Lv Ts Og').split()
ELEMENT_SET = set(ELEMENTS)
ATOMIC_NUMBER = {s: i + 1 for i, s in enumerate(ELEMENTS)}


class RefReject(Exception):
    pass


# ------------------------------------------------------------------ character helpers (plain or symbolic)

def ch_eq(c, lit):
    return c == lit


def ch_in(c, lits):
    if isinstance(c, str):
        return c in lits
    for x in lits:
        if c == x:
            return True
    return False


def ch_is_digit(c):
    if isinstance(c, str):
        return len(c) == 1 and '0' <= c <= '9'
    return c.is_ascii_digit()


def ch_digit(c):
    if isinstance(c, str):
        return ord(c) - 48
    return c.ascii_digit_value()


def ch_concrete(c):
    return c if isinstance(c, str) else c.concrete()


class RefAtom:
    __slots__ = ('symbol', 'aromatic', 'isotope', 'chirality', 'hcount', 'charge', 'amap', 'bracket', 'neighbours')

    def __init__(self, symbol, aromatic=False, isotope=None, chirality=None, hcount=None, charge=0, amap=None,
                 bracket=False):
        self.symbol = symbol
        self.aromatic = aromatic
        self.isotope = isotope
        self.chirality = chirality
        self.hcount = hcount
        self.charge = charge
        self.amap = amap
        self.bracket = bracket
        self.neighbours = []      # ('A', index) | ('H', None) | ('R', closure number) while open

    def as_tuple(self):
        return (self.symbol, self.aromatic, self.isotope, self.chirality, self.hcount, self.charge, self.amap)

    def __repr__(self):
        return f'RefAtom{self.as_tuple()}'


class RefMol:
    def __init__(self):
        self.atoms = []
        self.bonds = []       # (i, j, order or None, mark or None) ; i is the atom the symbol was written at
        self.ring_marks = []  # extra direction marks given at the closing digit: (i, j, mark)

    # ---- derived
    def bond_order(self, i, j, order):
        """resolved order: an omitted symbol is aromatic between two aromatic atoms and single otherwise"""
        if order is None:
            return 4 if self.atoms[i].aromatic and self.atoms[j].aromatic else 1
        return order

    def bond_table(self):
        return {frozenset((i, j)): self.bond_order(i, j, o) for i, j, o, _ in self.bonds}

    def adjacency(self):
        adj = {k: {} for k in range(len(self.atoms))}
        for i, j, o, _ in self.bonds:
            r = self.bond_order(i, j, o)
            adj[i][j] = r
            adj[j][i] = r
        return adj

    def _marks(self):
        """direction marks as {(first, second): above} meaning: `second` lies above `first` (True) or below"""
        out = {}
        for i, j, o, mark in self.bonds:
            if mark is not None:
                out[(i, j)] = mark == '/'
        for i, j, mark in self.ring_marks:
            out[(i, j)] = mark == '/'
        return out

    def above(self, centre, sub, marks):
        """True/False: substituent lies above/below `centre`; None when the bond carries no mark"""
        res = None
        if (centre, sub) in marks:
            res = marks[(centre, sub)]
        if (sub, centre) in marks:
            r2 = not marks[(sub, centre)]
            if res is not None and res != r2:
                raise RefReject('contradicting direction marks on one bond')
            res = r2
        return res

    def double_bond_geometry(self):
        """[(u, v, a, b, same_side)] for every chain of an odd number of cumulated double bonds whose two ends both
        carry a marked substituent"""
        adj = self.adjacency()
        marks = self._marks()
        seen = set()
        out = []
        for i, j, o, _ in self.bonds:
            if self.bond_order(i, j, o) != 2 or frozenset((i, j)) in seen:
                continue
            # extend to a maximal cumulene chain
            chain = [i, j]
            for direction in (0, 1):
                while True:
                    end, prev = (chain[-1], chain[-2]) if direction else (chain[0], chain[1])
                    nxt = [x for x, r in adj[end].items() if r == 2 and x != prev]
                    if len(nxt) != 1 or len(adj[end]) != 2:
                        break
                    if direction:
                        chain.append(nxt[0])
                    else:
                        chain.insert(0, nxt[0])
            for a, b in zip(chain, chain[1:]):
                seen.add(frozenset((a, b)))
            if (len(chain) - 1) % 2 == 0:
                continue   # allene-like: no cis/trans
            u, v = chain[0], chain[-1]
            su = [(x, self.above(u, x, marks)) for x in adj[u] if x != chain[1]]
            sv = [(x, self.above(v, x, marks)) for x in adj[v] if x != chain[-2]]
            su = [(x, s) for x, s in su if s is not None]
            sv = [(x, s) for x, s in sv if s is not None]
            if not su or not sv:
                continue
            if len(su) == 2 and su[0][1] == su[1][1] or len(sv) == 2 and sv[0][1] == sv[1][1]:
                raise RefReject('two substituents of one end on the same side')
            out.append((u, v, su[0][0], sv[0][0], su[0][1] == sv[0][1]))
        return out


def _parse_bracket(s, pos):
    """s[pos] is the character after '['; returns (RefAtom, position after ']')"""
    n = len(s)

    def peek(k=0):
        return s[pos + k] if pos + k < n else None

    # isotope
    isotope = None
    nd = 0
    while peek() is not None and ch_is_digit(peek()):
        d = ch_digit(peek())
        if nd == 0 and d == 0:
            raise RefReject('isotope with leading zero')
        isotope = d if isotope is None else isotope * 10 + d
        nd += 1
        pos += 1
        if nd > 3:
            raise RefReject('isotope too long')
    # symbol
    c = peek()
    if c is None:
        raise RefReject('unterminated bracket')
    c0 = ch_concrete(c)       # element letters matter one by one: realise
    if not ('A' <= c0 <= 'Z' or 'a' <= c0 <= 'z'):
        raise RefReject('no element symbol')
    pos += 1
    sym = c0
    c = peek()
    if c is not None:
        c1 = None
        # second lowercase letter belongs to the symbol when it forms an element (or an aromatic two-letter symbol)
        if not ch_in(c, '@H+-:]') and not ch_is_digit(c):
            c1 = ch_concrete(c)
        if c1 is not None:
            if 'a' <= c1 <= 'z':
                sym += c1
                pos += 1
            else:
                raise RefReject('bad character after element symbol')
    # 'H' followed by lowercase could be He/Hf/Hg/Ho/Hs: handled above since lowercase consumed
    aromatic = False
    if sym in BRACKET_AROMATIC:
        aromatic = True
        element = sym.capitalize()
    elif sym in ELEMENT_SET:
        element = sym
    else:
        # a one-letter element followed by what looked like a second letter, e.g. "Cn" -> not an element
        raise RefReject(f'unknown element {sym}')
    # chirality
    chirality = None
    if peek() is not None and ch_eq(peek(), '@'):
        pos += 1
        chirality = '@'
        if peek() is not None and ch_eq(peek(), '@'):
            pos += 1
            chirality = '@@'
    # hydrogens
    hcount = 0
    if peek() is not None and ch_eq(peek(), 'H'):
        pos += 1
        hcount = 1
        if peek() is not None and ch_is_digit(peek()):
            d = ch_digit(peek())
            d = int(d)
            if not 1 <= d <= 4:
                raise RefReject('hydrogen count outside 1-4')
            hcount = d
            pos += 1
    # charge
    charge = 0
    if peek() is not None and ch_in(peek(), '+-'):
        sign = 1 if ch_eq(peek(), '+') else -1
        signch = '+' if sign == 1 else '-'
        pos += 1
        k = 1
        if peek() is not None and ch_is_digit(peek()):
            d = int(ch_digit(peek()))
            if not 1 <= d <= 4:
                raise RefReject('charge digit outside 1-4')
            k = d
            pos += 1
        else:
            while peek() is not None and ch_eq(peek(), signch):
                k += 1
                pos += 1
                if k > 4:
                    raise RefReject('charge beyond 4')
        charge = sign * k
    # map
    amap = None
    if peek() is not None and ch_eq(peek(), ':'):
        pos += 1
        nd = 0
        amap = 0
        while peek() is not None and ch_is_digit(peek()):
            amap = amap * 10 + ch_digit(peek())
            nd += 1
            pos += 1
        if nd == 0:
            raise RefReject('empty map')
    if peek() is None or not ch_eq(peek(), ']'):
        raise RefReject('junk in bracket atom')
    pos += 1
    return RefAtom(element, aromatic, isotope, chirality, hcount, charge, amap, True), pos


BOND_ORDERS = {'-': 1, '=': 2, '#': 3, ':': 4, '~': 8}


def read(s):
    """parse one SMILES (no CX part, no reaction arrow) into a RefMol, or raise RefReject"""
    mol = RefMol()
    n = len(s)
    if n == 0:
        raise RefReject('empty')
    pos = 0
    prev = None            # index of the atom the next atom bonds to
    stack = []
    pending = None         # (order or None, mark or None) bond symbol waiting for its second atom; 'dot' for '.'
    open_rings = {}        # number -> (atom index, order, mark, slot in neighbours)
    just_opened = False    # directly after '('

    def attach(atom):
        nonlocal prev, pending, just_opened
        idx = len(mol.atoms)
        mol.atoms.append(atom)
        if prev is not None and pending != 'dot':
            order, mark = pending if pending else (None, None)
            mol.bonds.append((prev, idx, order, mark))
            mol.atoms[prev].neighbours.append(('A', idx))
            atom.neighbours.append(('A', prev))
        elif prev is None and pending not in (None, 'dot'):
            raise RefReject('bond without a first atom')
        if atom.bracket and atom.hcount:
            atom.neighbours.append(('H', None))
        pending = None
        prev = idx
        just_opened = False

    while pos < n:
        c = s[pos]
        if ch_eq(c, '['):
            atom, pos = _parse_bracket(s, pos + 1)
            attach(atom)
            continue
        if ch_eq(c, '('):
            if prev is None and not stack and not mol.atoms and pos == 0:
                # chython deliberately admits a parenthesised group at the very start ("(C)O"): treated as part of the
                # supported language here (see DESIGN C03)
                stack.append('START')
                just_opened = True
                pos += 1
                continue
            if prev is None or just_opened or (pending is not None and pending != 'dot'):
                raise RefReject('branch cannot open here')      # a dot before the branch is admitted (chython's reading)
            stack.append(prev)
            just_opened = True
            pos += 1
            continue
        if ch_eq(c, ')'):
            if not stack or just_opened or pending is not None:
                raise RefReject('branch cannot close here')
            prev = stack.pop()
            if prev == 'START':
                prev = 0          # the group's first atom carries on the chain (chython's reading)
            pos += 1
            continue
        if ch_eq(c, '.'):
            if prev is None or pending is not None:
                raise RefReject('dot cannot stand here')
            pending = 'dot'
            pos += 1
            continue
        if ch_in(c, '-=#:~/\\'):
            if prev is None or pending is not None:
                raise RefReject('bond symbol cannot stand here')
            for lit in '-=#:~/\\':
                if ch_eq(c, lit):
                    break
            pending = (None, lit) if lit in '/\\' else (BOND_ORDERS[lit], None)
            pos += 1
            continue
        isd = ch_is_digit(c)
        if isd or ch_eq(c, '%'):
            if prev is None or just_opened or pending == 'dot':
                raise RefReject('ring closure cannot stand here')
            if isd:
                num = int(ch_digit(c))
                if num == 0:
                    raise RefReject('ring closure 0')   # chython documents closures from 1
                pos += 1
            else:
                if pos + 2 == n and ch_is_digit(s[pos + 1]) and int(ch_digit(s[pos + 1])) != 0:
                    # "%d" as the very last token is read as closure d by chython on purpose: admitted here too
                    d1 = s[pos + 1]
                    num = int(ch_digit(d1))
                    pos += 2
                    order, mark = pending if pending else (None, None)
                    pending = None
                    if num not in open_rings:
                        raise RefReject('unclosed ring')
                    a, o0, m0, slot = open_rings.pop(num)
                    if a == prev or any(x == ('A', a) for x in mol.atoms[prev].neighbours):
                        raise RefReject('ring closure duplicates a bond')
                    if o0 is not None and order is not None and o0 != order:
                        raise RefReject('ring closure bond symbols disagree')
                    mol.bonds.append((a, prev, o0 if o0 is not None else order, m0))
                    if mark is not None:
                        mol.ring_marks.append((prev, a, mark))
                    mol.atoms[a].neighbours[slot] = ('A', prev)
                    mol.atoms[prev].neighbours.append(('A', a))
                    continue
                if pos + 2 >= n:
                    raise RefReject('%nn incomplete')
                d1, d2 = s[pos + 1], s[pos + 2]
                if not ch_is_digit(d1) or not ch_is_digit(d2):
                    raise RefReject('%nn incomplete')
                if int(ch_digit(d1)) == 0:
                    raise RefReject('%0n')
                num = int(ch_digit(d1)) * 10 + int(ch_digit(d2))
                pos += 3
            order, mark = pending if pending else (None, None)
            pending = None
            if num in open_rings:
                a, o0, m0, slot = open_rings.pop(num)
                if a == prev:
                    raise RefReject('ring closure on the same atom')
                if any(x == ('A', a) for x in mol.atoms[prev].neighbours):
                    raise RefReject('ring closure duplicates a bond')
                if o0 is not None and order is not None and o0 != order:
                    raise RefReject('ring closure bond symbols disagree')
                o = o0 if o0 is not None else order
                mol.bonds.append((a, prev, o, m0))
                if mark is not None:
                    mol.ring_marks.append((prev, a, mark))
                mol.atoms[a].neighbours[slot] = ('A', prev)
                mol.atoms[prev].neighbours.append(('A', a))
            else:
                open_rings[num] = (prev, order, mark, len(mol.atoms[prev].neighbours))
                mol.atoms[prev].neighbours.append(('R', num))
            continue
        # organic subset (tested character by character so that a symbolic character forks by class only)
        hit = None
        for lit in AROMATIC:
            if ch_eq(c, lit):
                hit = ('ar', lit)
                break
        if hit is None:
            for lit in ORGANIC:
                if ch_eq(c, lit):
                    hit = ('al', lit)
                    break
        if hit is None:
            raise RefReject('unexpected character')
        kind, lit = hit
        if kind == 'ar':
            attach(RefAtom(lit.upper(), True))
            pos += 1
            continue
        if lit == 'C' and pos + 1 < n and ch_eq(s[pos + 1], 'l'):
            attach(RefAtom('Cl'))
            pos += 2
            continue
        if lit == 'B' and pos + 1 < n and ch_eq(s[pos + 1], 'r'):
            attach(RefAtom('Br'))
            pos += 2
            continue
        attach(RefAtom(lit))
        pos += 1
        continue
    if stack:
        raise RefReject('unclosed branch')
    if just_opened:
        raise RefReject('empty branch')
    if open_rings:
        raise RefReject('unclosed ring')
    if pending is not None:
        raise RefReject('dangling bond or dot')
    return mol
