"""cysym -- run chython's three .pyx files from their *current source text* with C semantics.

No Cython compiler exists in this sandbox.  The sources are (1) normalised line by line into text `ast.parse`
accepts (cdef declarations, casts, address-of, structs, typed headers), (2) rewritten at the AST level so that every
assignment to a C-typed name converts to that type and every store into a Python object unboxes, and (3) executed
natively with `CVal` values: Python ints in concrete mode, z3 bit-vectors of the C type's width in symbolic mode
(under the minisym driver: comparisons fork, indices realise).  Doubles are Python floats or z3 Float64 (RNE).

Anything the normaliser does not know raises CySyntax (-> inconclusive), never a verdict.
"""
import ast
import math
import re
import struct as _struct

import z3

from . import minisym
from .minisym import SymBool, SymBV, SymInt, Inconclusive, WIDE


class CySyntax(Exception):
    pass


INT_TYPES = {'unsigned long long': (64, False), 'unsigned char': (8, False), 'char': (8, True),
             'unsigned short': (16, False), 'short': (16, True), 'unsigned int': (32, False), 'int': (32, True),
             'bint': (32, True), 'size_t': (64, False), 'Py_ssize_t': (64, True), 'long long': (64, True)}
SIZEOF = {k: v[0] // 8 for k, v in INT_TYPES.items()}
SIZEOF['double'] = 8
OBJ_TYPES = {'bytes', 'dict', 'tuple', 'object', 'list'}
CTYPES = sorted(list(INT_TYPES) + ['double', 'void'] + sorted(OBJ_TYPES), key=len, reverse=True)
CT_RE = '|'.join(re.escape(t) for t in CTYPES)


# =================================================================================================== normaliser

def split_top(s, sep=','):
    out, depth, cur = [], 0, ''
    for ch in s:
        if ch in '([{':
            depth += 1
        elif ch in ')]}':
            depth -= 1
        if ch == sep and depth == 0:
            out.append(cur)
            cur = ''
        else:
            cur += ch
    out.append(cur)
    return [x.strip() for x in out]


def _strip_comment(s):
    # no '#' inside string literals in these sources except none; keep it simple but safe
    out, q = '', None
    for i, ch in enumerate(s):
        if q:
            out += ch
            if ch == q:
                q = None
        elif ch in '"\'':
            q = ch
            out += ch
        elif ch == '#':
            break
        else:
            out += ch
    return out.rstrip()


def normalise(src, path='<pyx>'):
    lines = src.split('\n')
    out = []
    structs = {}
    struct_names = []
    i = 0

    def type_re():
        names = '|'.join(struct_names) if struct_names else 'NOSTRUCT'
        return f'{CT_RE}|{names}'

    while i < len(lines):
        line = lines[i]
        lineno = i + 1
        s = _strip_comment(line).strip()
        ind = line[:len(line) - len(line.lstrip())]
        if not s:
            out.append('')
            i += 1
            continue
        if re.match(r'(def|cdef)\s', s) and s.count('(') > s.count(')'):
            while s.count('(') > s.count(')'):
                i += 1
                out.append('')
                s += ' ' + _strip_comment(lines[i]).strip()
        elif s.count('(') + s.count('[') > s.count(')') + s.count(']') and not s.startswith(('def ', 'cdef ')):
            # plain python continuation lines: keep as they are
            pass
        if s.startswith('cimport ') or re.match(r'from \S+ cimport ', s) or s.startswith('@cython.'):
            out.append('')
            i += 1
            continue
        if s.startswith('cdef extern'):
            out.append('')
            i += 1
            while i < len(lines) and (lines[i].startswith((' ', '\t')) or not lines[i].strip()):
                out.append('')
                i += 1
            continue
        m = re.match(r'cdef packed struct (\w+):', s)
        if m:
            name = m.group(1)
            fields = []
            out.append('')
            i += 1
            while i < len(lines) and (lines[i].startswith((' ', '\t')) or not lines[i].strip()):
                f = _strip_comment(lines[i]).strip()
                if f:
                    fm = re.match(rf'({type_re()})\s*(\*?)\s*(\w+)$', f)
                    if not fm:
                        raise CySyntax(f'{path}:{i + 1}: struct field not understood: {f}')
                    fields.append((fm.group(3), fm.group(1) + fm.group(2)))
                out.append('')
                i += 1
            structs[name] = fields
            struct_names.append(name)
            continue
        # function headers
        m = re.match(rf'(cdef\s+(?:{type_re()})\s+|def\s+)(\w+)\((.*)\):$', s)
        if m:
            ret = m.group(1).strip()
            ret = ret[5:].strip() if ret.startswith('cdef') else 'object'
            args, argt = [], []
            for a in split_top(m.group(3)):
                if not a:
                    continue
                a = a.replace(' not None', '').replace('const ', '')
                am = re.match(rf'(?:({type_re()})\s*(\[::1\]|\*)?\s*)?(\*?)(\w+)$', a)
                if not am:
                    raise CySyntax(f'{path}:{lineno}: argument not understood: {a}')
                t = (am.group(1) or 'object') + (am.group(2) or '') + (am.group(3) or '')
                args.append(am.group(4))
                argt.append(t)
            out.append(f"{ind}def {m.group(2)}({', '.join(args)}):")
            tup = ', '.join(args) + (',' if len(args) == 1 else '')
            if args:
                out.append(f"{ind}    {tup} = __argconv__({argt!r}, ({tup})); __ret__ = {ret!r}")
            else:
                out.append(f"{ind}    __ret__ = {ret!r}")
            i += 1
            continue
        if re.match(r'(cdef|cpdef)\s', s) and s.endswith(':'):
            raise CySyntax(f'{path}:{lineno}: unsupported cdef block: {s}')
        # array declarations
        m = re.match(rf'cdef ({type_re()})\[(\d+)\] (\w+)$', s)
        if m:
            out.append(f"{ind}{m.group(3)} = __array__({m.group(1)!r}, {m.group(2)})")
            i += 1
            continue
        m = re.match(rf'cdef ({type_re()})\s+(.*)$', s)
        if m:
            typ = m.group(1)
            stmts = []
            for d in split_top(m.group(2)):
                ptr = ''
                while d.startswith('*'):
                    ptr += '*'
                    d = d[1:].strip()
                if '=' in d:
                    name, val = [x.strip() for x in d.split('=', 1)]
                    stmts.append(f"{name} = __declare__({(typ + ptr)!r}, {conv_expr(val)})")
                else:
                    if not re.match(r'\w+$', d):
                        raise CySyntax(f'{path}:{lineno}: declaration not understood: {d}')
                    stmts.append(f"{d} = __declare__({(typ + ptr)!r})")
            out.append(ind + '; '.join(stmts))
            i += 1
            continue
        if s.startswith('cdef '):
            raise CySyntax(f'{path}:{lineno}: cdef statement not understood: {s}')
        m = re.match(r'(\w+) = frexp\((\w+), &(\w+)\)$', s)
        if m:
            out.append(f"{ind}{m.group(1)}, {m.group(3)} = __frexp__({m.group(2)})")
            i += 1
            continue
        if 'frexp(' in s:
            raise CySyntax(f'{path}:{lineno}: frexp call shape not understood: {s}')
        out.append(ind + conv_expr(s))
        i += 1
    return '\n'.join(out), structs


def conv_expr(s):
    code = s
    code = re.sub(rf'<\s*((?:{CT_RE}|\w+)\s*\**)\s*>\s*', lambda m: f"__cast__({m.group(1).strip()!r}) @ ", code)
    code = _fix_addr(code)
    if re.search(r'(?<![\w&])&\s*[A-Za-z_]\w*\s*(?![\w\[\.(])', code) and re.search(r'[=(,]\s*&\w+\s*[,)]', code):
        raise CySyntax(f'address-of a scalar is not supported: {s}')
    code = re.sub(r'sizeof\(([^)]*)\)', lambda m: f"sizeof({m.group(1).strip()!r})", code)
    return code


def _fix_addr(code):
    # &name[expr] / &a.b[expr]  ->  __addr__(name, expr)
    out = ''
    i = 0
    while True:
        m = re.search(r'&([A-Za-z_][\w.]*)\[', code[i:])
        if not m:
            return out + code[i:]
        # make sure this '&' is unary: preceded by start, '(', ',', '=', '>', operator or whitespace after those
        before = (out + code[i:i + m.start()]).rstrip()
        if before and (before[-1].isalnum() or before[-1] in ')]_'):
            out += code[i:i + m.end()]
            i += m.end()
            continue
        out += code[i:i + m.start()]
        j = i + m.end()
        depth = 1
        k = j
        while depth:
            if code[k] == '[':
                depth += 1
            elif code[k] == ']':
                depth -= 1
            k += 1
        out += f'__addr__({m.group(1)}, {code[j:k - 1]})'
        i = k


# =================================================================================================== values

def _is_sym(v):
    return isinstance(v, z3.ExprRef)


def _wrap(v, t):
    w, s = INT_TYPES[t]
    v &= (1 << w) - 1
    if s and v >> (w - 1):
        v -= 1 << w
    return v


class CVal:
    """C integer of type t: Python int or z3 bit-vector of the type's width"""
    __slots__ = ('v', 't')

    def __init__(self, v, t):
        self.t = t
        if _is_sym(v):
            self.v = v
        else:
            self.v = _wrap(int(v), t)

    @property
    def sym(self):
        return _is_sym(self.v)

    def __repr__(self):
        return f'C<{self.t}>{self.v}'

    def bv(self):
        w, s = INT_TYPES[self.t]
        return self.v if self.sym else z3.BitVecVal(self.v, w)

    def concrete(self):
        if not self.sym:
            return self.v
        w, s = INT_TYPES[self.t]
        r = minisym.CTX.realize(self.v)
        return r.as_signed_long() if s else r.as_long()

    def __index__(self):
        return self.concrete()
    __int__ = __index__

    def __bool__(self):
        if not self.sym:
            return self.v != 0
        return minisym.CTX.decide(self.v != 0)

    def __hash__(self):
        return hash(self.concrete())

    def __float__(self):
        return float(self.concrete())

    def as_pyint(self):
        """unbox to what Cython would hand to Python: int, or a wide signed bit-vector proxy in symbolic mode"""
        if not self.sym:
            return self.v
        w, s = INT_TYPES[self.t]
        e = z3.SignExt(WIDE - w, self.v) if s else z3.ZeroExt(WIDE - w, self.v)
        return SymBV(z3.simplify(e), True)


def _rank(x):
    if isinstance(x, CVal):
        w, s = INT_TYPES[x.t]
        if w < 32 or x.t == 'bint':
            return 'int'
        if x.t in ('size_t',):
            return 'unsigned long long'
        if x.t in ('Py_ssize_t',):
            return 'long long'
        return x.t
    if isinstance(x, bool):
        return 'int'
    if isinstance(x, int):
        return 'int' if -2 ** 31 <= x < 2 ** 31 else ('long long' if x < 2 ** 63 else 'unsigned long long')
    return None


_ORDER = ['int', 'unsigned int', 'long long', 'unsigned long long']


def _common(a, b):
    ra, rb = _rank(a), _rank(b)
    return _ORDER[max(_ORDER.index(ra), _ORDER.index(rb))]


def _to(x, t):
    """value of x converted to integer type t: python int or z3 bv"""
    w, s = INT_TYPES[t]
    if isinstance(x, CVal):
        if not x.sym:
            return _wrap(x.v, t)
        sw, ss = INT_TYPES[x.t]
        if sw == w:
            return x.v
        if sw > w:
            return z3.Extract(w - 1, 0, x.v)
        return z3.SignExt(w - sw, x.v) if ss else z3.ZeroExt(w - sw, x.v)
    return _wrap(int(x), t)


def _mkbv(v, t):
    return v if _is_sym(v) else z3.BitVecVal(v, INT_TYPES[t][0])


def cdiv(a, b):
    if b == 0:
        raise ZeroDivisionError('C division by zero')
    q = abs(a) // abs(b)
    return q if (a >= 0) == (b >= 0) else -q


def cmod(a, b):
    return a - cdiv(a, b) * b


_CONC = {'add': lambda a, b: a + b, 'sub': lambda a, b: a - b, 'mul': lambda a, b: a * b, 'or': lambda a, b: a | b,
         'and': lambda a, b: a & b, 'xor': lambda a, b: a ^ b, 'lshift': lambda a, b: a << b,
         'rshift': lambda a, b: a >> b, 'truediv': cdiv, 'floordiv': cdiv, 'mod': cmod}


def _symop(name, a, b, signed):
    if name == 'add':
        return a + b
    if name == 'sub':
        return a - b
    if name == 'mul':
        return a * b
    if name == 'or':
        return a | b
    if name == 'and':
        return a & b
    if name == 'xor':
        return a ^ b
    if name == 'lshift':
        return a << b
    if name == 'rshift':
        return (a >> b) if signed else z3.LShR(a, b)
    if name in ('truediv', 'floordiv'):
        return (a / b) if signed else z3.UDiv(a, b)
    if name == 'mod':
        return z3.SRem(a, b) if signed else z3.URem(a, b)
    raise CySyntax(name)


def _binop(name, rev=False):
    def op(self, o):
        if isinstance(o, (float, SymFP)):
            f = to_double(self)
            if name not in _FOPS:
                raise CySyntax(f'operator {name} between an integer and a double')
            a, b = (f, o) if not rev else (o, f)
            if isinstance(a, SymFP) or isinstance(b, SymFP):
                a = a if isinstance(a, SymFP) else SymFP(SymFP.lift(a))
                return getattr(a, '__%s__' % name)(b)
            return _FOPS[name](a, b)
        if isinstance(o, (SymBV, SymInt, SymBool)):
            raise CySyntax('python-int proxy met a C value without conversion')
        if not isinstance(o, (CVal, int)):
            return NotImplemented
        a, b = (self, o) if not rev else (o, self)
        if name in ('lshift', 'rshift'):
            t = _rank(a)             # result has the promoted type of the left operand
        else:
            t = _common(a, b)
        av, bv = _to(a, t), _to(b, t)
        if not _is_sym(av) and not _is_sym(bv):
            return CVal(_CONC[name](av, bv), t)
        if name in ('truediv', 'floordiv', 'mod') and not _is_sym(bv) and bv == 0:
            raise ZeroDivisionError('C division by zero')
        if name in ('truediv', 'floordiv', 'mod') and _is_sym(bv):
            if minisym.CTX.decide(bv == 0):
                raise ZeroDivisionError('C division by zero')
        r = _symop(name, _mkbv(av, t), _mkbv(bv, t), INT_TYPES[t][1])
        return CVal(z3.simplify(r), t)
    return op


_FOPS = {'add': lambda a, b: a + b, 'sub': lambda a, b: a - b, 'mul': lambda a, b: a * b, 'truediv': lambda a, b: a / b}

for _nm in _CONC:
    setattr(CVal, f'__{_nm}__', _binop(_nm))
    setattr(CVal, f'__r{_nm}__', _binop(_nm, rev=True))


def _cmp(name):
    conc = {'eq': lambda a, b: a == b, 'ne': lambda a, b: a != b, 'lt': lambda a, b: a < b, 'le': lambda a, b: a <= b,
            'gt': lambda a, b: a > b, 'ge': lambda a, b: a >= b}[name]

    def op(self, o):
        if isinstance(o, (float, SymFP)):
            return getattr(to_double(self), f'__{name}__')(o) if isinstance(o, SymFP) else conc(float(self), o)
        if isinstance(o, bool):
            o = int(o)
        if not isinstance(o, (CVal, int)):
            return NotImplemented if name not in ('eq', 'ne') else (name == 'ne')
        t = _common(self, o)
        av, bv = _to(self, t), _to(o, t)
        if not _is_sym(av) and not _is_sym(bv):
            return conc(av, bv)
        a, b = _mkbv(av, t), _mkbv(bv, t)
        s = INT_TYPES[t][1]
        e = {'eq': lambda: a == b, 'ne': lambda: a != b,
             'lt': lambda: (a < b) if s else z3.ULT(a, b), 'le': lambda: (a <= b) if s else z3.ULE(a, b),
             'gt': lambda: (a > b) if s else z3.UGT(a, b), 'ge': lambda: (a >= b) if s else z3.UGE(a, b)}[name]()
        return SymBool(e)
    return op


for _nm in ('eq', 'ne', 'lt', 'le', 'gt', 'ge'):
    setattr(CVal, f'__{_nm}__', _cmp(_nm))


def _neg(self):
    t = _rank(self)
    v = _to(self, t)
    return CVal(-v, t)


CVal.__neg__ = _neg
CVal.__invert__ = lambda self: CVal(~_to(self, _rank(self)), _rank(self))


# --------------------------------------------------------------------------------------------------- doubles

F64 = z3.Float64()
RNE = z3.RNE()


class SymFP:
    """IEEE double as a z3 Float64 term (round to nearest even)"""
    __slots__ = ('e',)

    def __init__(self, e):
        self.e = e

    @staticmethod
    def lift(o):
        if isinstance(o, SymFP):
            return o.e
        if isinstance(o, bool):
            return z3.FPVal(float(o), F64)
        if isinstance(o, (int, float)):
            return z3.FPVal(float(o), F64)
        if isinstance(o, CVal):
            return to_double(o).e if o.sym else z3.FPVal(float(o.v), F64)
        return None

    def _bin(self, o, f, rev=False):
        l = SymFP.lift(o)
        if l is None:
            return NotImplemented
        return SymFP(f(RNE, l, self.e) if rev else f(RNE, self.e, l))

    def __add__(self, o):
        return self._bin(o, z3.fpAdd)
    __radd__ = __add__

    def __sub__(self, o):
        return self._bin(o, z3.fpSub)

    def __rsub__(self, o):
        return self._bin(o, z3.fpSub, True)

    def __mul__(self, o):
        return self._bin(o, z3.fpMul)
    __rmul__ = __mul__

    def __truediv__(self, o):
        return self._bin(o, z3.fpDiv)

    def __rtruediv__(self, o):
        return self._bin(o, z3.fpDiv, True)

    def __neg__(self):
        return SymFP(z3.fpNeg(self.e))

    def _cmp(self, o, f):
        l = SymFP.lift(o)
        if l is None:
            return NotImplemented
        return SymBool(f(self.e, l))

    def __lt__(self, o):
        return self._cmp(o, z3.fpLT)

    def __le__(self, o):
        return self._cmp(o, z3.fpLEQ)

    def __gt__(self, o):
        return self._cmp(o, z3.fpGT)

    def __ge__(self, o):
        return self._cmp(o, z3.fpGEQ)

    def __eq__(self, o):
        r = self._cmp(o, z3.fpEQ)
        return False if r is NotImplemented else r

    def __ne__(self, o):
        r = self._cmp(o, z3.fpNEQ)
        return True if r is NotImplemented else r

    def __bool__(self):
        return minisym.CTX.decide(z3.Not(z3.fpIsZero(self.e)))

    def __hash__(self):
        raise minisym.EngineError('hash of a symbolic double')

    def __repr__(self):
        return f'SymFP({self.e})'


def to_double(x):
    if isinstance(x, (float, SymFP)):
        return x
    if isinstance(x, CVal):
        if not x.sym:
            return float(x.v)
        w, s = INT_TYPES[x.t]
        return SymFP(z3.fpSignedToFP(RNE, x.v, F64) if s else z3.fpUnsignedToFP(RNE, x.v, F64))
    if isinstance(x, (int, bool)):
        return float(x)
    raise CySyntax(f'cannot convert {type(x).__name__} to double')


def c_frexp(x):
    """(f, e) with x == f * 2**e, 0.5 <= |f| < 1 for finite non-zero x (e returned as C int)"""
    if isinstance(x, float):
        f, e = math.frexp(x)
        return f, CVal(e, 'int')
    bv = z3.fpToIEEEBV(x.e)
    expf = z3.Extract(62, 52, bv)
    man = z3.Extract(51, 0, bv)
    sign = z3.Extract(63, 63, bv)
    ctx = minisym.CTX
    if ctx.decide(z3.Or(z3.fpIsNaN(x.e), z3.fpIsInf(x.e))):
        raise Inconclusive('frexp of NaN/inf is outside the modelled domain')
    if ctx.decide(z3.fpIsZero(x.e)):
        return x, CVal(0, 'int')
    if ctx.decide(expf == 0):
        # subnormal double: any f in [0.5, 1) with the sign of x and some exponent <= -1022 (over-approximation)
        ctx.fresh += 1
        f = z3.FP(f'frexp_f{ctx.fresh}', F64)
        e = z3.BitVec(f'frexp_e{ctx.fresh}', 32)
        ctx.add(z3.And(z3.fpGEQ(z3.fpAbs(f), z3.FPVal(0.5, F64)), z3.fpLT(z3.fpAbs(f), z3.FPVal(1.0, F64)),
                       z3.fpIsNegative(f) == z3.fpIsNegative(x.e), e <= -1022, e >= -1100))
        return SymFP(f), CVal(e, 'int')
    f = z3.fpBVToFP(z3.Concat(sign, z3.BitVecVal(1022, 11), man), F64)
    e = z3.ZeroExt(21, expf) - 1022
    return SymFP(f), CVal(z3.simplify(e), 'int')


def c_ldexp(x, k):
    kk = int(k)              # a symbolic exponent is realised: one path per binade
    if isinstance(x, float):
        return math.ldexp(x, kk)
    if not -1000 < kk < 1000:
        raise Inconclusive('ldexp exponent outside the modelled range')
    return SymFP(z3.fpMul(RNE, x.e, z3.FPVal(2.0 ** kk, F64)))     # exact: no overflow/underflow in this range for
    # the magnitudes the codec reaches (|x| < 2^11, |k| <= 25); the FP term itself models any rounding anyway


# --------------------------------------------------------------------------------------------------- memory

class CArray:
    """C array / malloc'ed block of an integer type; elements python ints or z3 bit-vectors; symbolic indices go
    through a z3 array created on demand"""

    def __init__(self, t, n=None, data=None):
        self.t = t
        self.a = list(data) if data is not None else [0] * int(n)
        self.z = None        # z3 Array view, built when a symbolic index is used
        self.zstore = False  # a store through a symbolic index happened: only the z3 view is authoritative

    def __len__(self):
        return len(self.a)

    def __bool__(self):
        return True

    def _cell(self, v):
        return CVal(v, self.t)

    def _symify(self):
        w = INT_TYPES[self.t][0]
        arr = z3.K(z3.BitVecSort(16), z3.BitVecVal(0, w))
        for i, v in enumerate(self.a):
            if _is_sym(v) or v != 0:
                arr = z3.Store(arr, z3.BitVecVal(i, 16), _mkbv(v if _is_sym(v) else _wrap(v, self.t) & ((1 << w) - 1), self.t))
        self.z = arr

    def __getitem__(self, i):
        if isinstance(i, slice):
            start = int(i.start or 0)
            stop = len(self.a) if i.stop is None else int(i.stop)
            if self.zstore:
                return [self[k] for k in range(start, stop)]
            return [self._cell(v) for v in self.a[start:stop]]
        if isinstance(i, CVal) and i.sym:
            if self.z is None:
                self._symify()
            return CVal(z3.simplify(z3.Select(self.z, _to_index(i))), self.t)
        if self.zstore:
            return CVal(z3.simplify(z3.Select(self.z, z3.BitVecVal(int(i), 16))), self.t)
        return self._cell(self.a[int(i)])

    def __setitem__(self, i, v):
        if isinstance(i, slice):
            self.a[:] = list(v)
            self.z = None
            self.zstore = False
            return
        cv = _to(v, self.t) if isinstance(v, (CVal, int)) else _to(conv(self.t, v), self.t)
        if isinstance(i, CVal) and i.sym:
            if self.z is None:
                self._symify()
            self.z = z3.Store(self.z, _to_index(i), _mkbv(cv, self.t))
            self.zstore = True
            return
        if self.zstore:
            self.z = z3.Store(self.z, z3.BitVecVal(int(i), 16), _mkbv(cv, self.t))
            return
        self.a[int(i)] = cv
        self.z = None

    def fill(self, v):
        self.a = [v] * len(self.a)
        self.z = None
        self.zstore = False


def _to_index(i):
    w, s = INT_TYPES[i.t]
    if w == 16:
        return i.v
    if w > 16:
        return z3.Extract(15, 0, i.v)
    return z3.ZeroExt(16 - w, i.v)


class Ptr:
    """typed pointer into a CArray of unsigned char (or of its own element type)"""

    def __init__(self, arr, off, t, structs):
        self.arr = arr
        self.off = off            # byte offset when arr is a byte array, element offset otherwise
        self.t = t                # element type name (C int type or struct name)
        self.structs = structs

    def __bool__(self):
        return True

    def size(self):
        return struct_size(self.t, self.structs) if self.t in self.structs else SIZEOF[self.t]

    def __add__(self, n):
        return Ptr(self.arr, self.off + int(n) * (self.size() if self.arr.t == 'unsigned char' else 1), self.t,
                   self.structs)

    def _read_int(self, boff, t):
        n = SIZEOF[t]
        if self.arr.t != 'unsigned char':
            raise CySyntax('typed read from a non-byte array')
        cells = [self.arr[boff + k] for k in range(n)]          # little endian
        if all(not c.sym for c in cells):
            return CVal(int.from_bytes(bytes(c.v for c in cells), 'little'), t)
        e = z3.Concat(*[c.bv() for c in reversed(cells)]) if n > 1 else cells[0].bv()
        return CVal(z3.simplify(e), t)

    def __getitem__(self, i):
        i = int(i)
        if self.t in self.structs:
            base = self.off + i * self.size()
            sv = StructVal(self.t, self.structs)
            o = 0
            for name, ft in self.structs[self.t]:
                if ft.endswith('*'):
                    raise CySyntax('pointer field inside a buffer struct')
                object.__setattr__(sv, name, self._read_int(base + o, ft))
                o += SIZEOF[ft]
            return sv
        if self.arr.t == 'unsigned char' and self.t != 'unsigned char':
            return self._read_int(self.off + i * SIZEOF[self.t], self.t)
        return self.arr[self.off + i]

    def __setitem__(self, i, v):
        if self.t in self.structs or (self.arr.t == 'unsigned char' and self.t != 'unsigned char'):
            raise CySyntax('typed store through a cast pointer is not modelled')
        self.arr[self.off + int(i)] = v


def struct_size(name, structs):
    return sum(8 if ft.endswith('*') else SIZEOF[ft] for _, ft in structs[name])


class StructVal:
    def __init__(self, name, structs):
        object.__setattr__(self, '_name', name)
        object.__setattr__(self, '_structs', structs)
        for f, ft in structs[name]:
            object.__setattr__(self, f, None if ft.endswith('*') else CVal(0, ft))

    def __setattr__(self, k, v):
        for f, ft in self._structs[self._name]:
            if f == k:
                object.__setattr__(self, k, v if ft.endswith('*') else conv(ft, v))
                return
        raise AttributeError(k)


class Cast:
    def __init__(self, t, structs):
        self.t = t
        self.structs = structs

    def __matmul__(self, x):
        t = self.t
        if t.endswith('*'):
            base = t[:-1].strip()
            if isinstance(x, tuple) and x and x[0] == 'malloc':
                if base in self.structs:
                    raise CySyntax('malloc of structs not modelled')
                return CArray(base, x[1] // SIZEOF[base])
            if isinstance(x, Ptr):
                return Ptr(x.arr, x.off, base, self.structs)
            raise CySyntax(f'cast to {t} of {type(x).__name__}')
        return conv(t, x, explicit=True)


def _pyint_to_c(t, v):
    """Python int (or proxy) entering C: Cython raises OverflowError when it does not fit"""
    w, s = INT_TYPES[t]
    lo, hi = (-(1 << (w - 1)), (1 << (w - 1)) - 1) if s else (0, (1 << w) - 1)
    if isinstance(v, SymBool):
        return CVal(z3.If(v.e, z3.BitVecVal(1, w), z3.BitVecVal(0, w)), t)
    if isinstance(v, SymBV):
        if not (v.signed and v.w == WIDE):
            raise CySyntax('unexpected bit-vector proxy entering C code')
        fits = z3.And(v.e >= lo, v.e <= hi)
        if not minisym.CTX.decide(fits):
            raise OverflowError(f'value too large to convert to {t}')
        return CVal(z3.simplify(z3.Extract(w - 1, 0, v.e)), t)
    if isinstance(v, SymInt):
        fits = z3.And(v.e >= lo, v.e <= hi)
        if not minisym.CTX.decide(fits):
            raise OverflowError(f'value too large to convert to {t}')
        return CVal(z3.Int2BV(v.e, w), t)
    if isinstance(v, bool):
        return CVal(int(v), t)
    if isinstance(v, int):
        if t == 'bint':
            return CVal(int(v != 0), t)
        if not lo <= v <= hi:
            raise OverflowError(f'value too large to convert to {t}')
        return CVal(v, t)
    raise TypeError(f'an integer is required, got {type(v).__name__}')


def conv(t, v, explicit=False):
    if t in INT_TYPES:
        if isinstance(v, CVal):
            if t == 'bint':
                r = v != 0
                return CVal(int(r), t) if isinstance(r, bool) else CVal(z3.If(r.e, z3.BitVecVal(1, 32), z3.BitVecVal(0, 32)), t)
            return CVal(_to(v, t), t)
        if isinstance(v, float):
            if v != v or v in (float('inf'), float('-inf')):
                raise Inconclusive('conversion of NaN/inf to an integer is undefined behaviour')
            return CVal(int(v), t)        # truncation toward zero (wraps like the hardware for in-range values)
        if isinstance(v, SymFP):
            w, s = INT_TYPES[t]
            # out-of-range conversion is undefined behaviour in C: must be excluded on this path
            lim_hi = z3.FPVal(float(1 << (w - (1 if s else 0))), F64)
            lim_lo = z3.FPVal(float(-(1 << (w - 1)) - 1) if s else -1.0, F64)
            bad = z3.Or(z3.fpIsNaN(v.e), z3.fpGEQ(v.e, lim_hi), z3.fpLEQ(v.e, lim_lo))
            if minisym.CTX.check(bad) != z3.unsat:
                raise Inconclusive('double to integer conversion may be out of range (undefined behaviour)')
            e = z3.fpToSBV(z3.RTZ(), v.e, z3.BitVecSort(w)) if s else z3.fpToUBV(z3.RTZ(), v.e, z3.BitVecSort(w))
            return CVal(e, t)
        return _pyint_to_c(t, v)
    if t == 'double':
        if isinstance(v, minisym.SymReal):
            raise CySyntax('real proxy passed where a double is expected')
        return to_double(v)
    if t in OBJ_TYPES or t == 'void':
        return unbox(v)
    return v       # struct / pointer / memoryview types pass through


def unbox(v):
    if isinstance(v, CVal):
        return v.as_pyint()
    if isinstance(v, tuple):
        return tuple(unbox(x) for x in v)
    if isinstance(v, list) and v and isinstance(v[0], (CVal, int)) and not isinstance(v[0], bool):
        # slice of a C byte array handed to Python: bytes when concrete, list of byte values otherwise
        if all(isinstance(x, int) or (isinstance(x, CVal) and not x.sym) for x in v):
            return bytes(int(x) & 0xff for x in v)
        return SymBytes(v)
    return v


class SymBytes:
    """bytes object whose items may be symbolic 8-bit values"""

    def __init__(self, cells):
        self.cells = [c if isinstance(c, CVal) else CVal(c if _is_sym(c) else int(c), 'unsigned char') for c in cells]

    def __len__(self):
        return len(self.cells)

    def __getitem__(self, i):
        if isinstance(i, slice):
            return SymBytes(self.cells[i])
        return self.cells[i].as_pyint() if self.cells[i].sym else self.cells[i].v

    def __iter__(self):
        return (self[i] for i in range(len(self.cells)))


def argconv(types, values):
    out = []
    for t, v in zip(types, values):
        base = t.replace('[::1]', '')
        if t.endswith('[::1]'):
            if isinstance(v, CArray):
                out.append(v)
            elif hasattr(v, 'to_cells'):
                out.append(CArray(base, data=v.to_cells()))
            elif isinstance(v, SymBytes):
                out.append(CArray(base, data=[c.v for c in v.cells]))
            elif isinstance(v, (bytes, bytearray, memoryview)):
                out.append(CArray(base, data=list(bytes(v))))
            else:
                out.append(CArray(base, data=[x.v if isinstance(x, CVal) else x for x in v]))
        elif t.endswith('*'):
            out.append(v)
        else:
            out.append(conv(t, v))
    return tuple(out)


# =================================================================================================== AST rewrite

class Rewriter(ast.NodeTransformer):
    def __init__(self):
        self.types = {}
        self.ret = 'object'

    def _collect(self, node):
        for n in ast.walk(node):
            if isinstance(n, ast.Assign) and isinstance(n.value, ast.Call) and \
                    getattr(n.value.func, 'id', None) == '__declare__':
                self.types[n.targets[0].id] = n.value.args[0].value
            if isinstance(n, ast.Assign) and isinstance(n.value, ast.Call) and \
                    getattr(n.value.func, 'id', None) == '__array__':
                self.types[n.targets[0].id] = n.value.args[0].value + '[]'

    def visit_Module(self, node):
        self._collect_module(node)
        self.generic_visit(node)
        return node

    def _collect_module(self, node):
        for n in node.body:
            if isinstance(n, ast.Assign) and isinstance(n.value, ast.Call) and \
                    getattr(n.value.func, 'id', None) in ('__declare__', '__array__'):
                t = n.value.args[0].value
                self.types[n.targets[0].id] = t + ('[]' if n.value.func.id == '__array__' else '')

    def visit_FunctionDef(self, node):
        saved, saved_ret = self.types, self.ret
        self.types = dict(saved)
        self.ret = 'object'
        # the header line carries `a, b = __argconv__([...], (a, b)); __ret__ = 'T'`
        for n in node.body[:2]:
            if isinstance(n, ast.Assign) and isinstance(n.value, ast.Call) and \
                    getattr(n.value.func, 'id', '') == '__argconv__':
                tl = [e.value for e in n.value.args[0].elts]
                for a, t in zip(node.args.args, tl):
                    self.types[a.arg] = t
            if isinstance(n, ast.Assign) and getattr(n.targets[0], 'id', '') == '__ret__':
                self.ret = n.value.value
        self._collect(node)
        node.body = [x for stmt in node.body for x in self._visit_stmt(stmt)]
        self.types, self.ret = saved, saved_ret
        return node

    def _visit_stmt(self, stmt):
        r = self.visit(stmt)
        return r if isinstance(r, list) else [r]

    def generic_visit(self, node):
        for field, old in ast.iter_fields(node):
            if isinstance(old, list):
                new = []
                for v in old:
                    if isinstance(v, ast.AST):
                        v = self.visit(v)
                        if v is None:
                            continue
                        if isinstance(v, list):
                            new.extend(v)
                            continue
                    new.append(v)
                old[:] = new
            elif isinstance(old, ast.AST):
                new = self.visit(old)
                if new is None:
                    delattr(node, field)
                else:
                    setattr(node, field, new)
        return node

    def _ctype(self, name):
        t = self.types.get(name)
        if t and not t.endswith(('*', '[]', '[::1]')):
            return t
        return None

    def _wrap(self, name, value):
        t = self._ctype(name)
        if t:
            return ast.Call(ast.Name('__conv__', ast.Load()), [ast.Constant(t), value], [])
        return value

    def _store(self, tgt, load_expr):
        """statements assigning load_expr (an ast expr, already evaluated into a temp) to tgt"""
        if isinstance(tgt, ast.Name):
            return [ast.Assign([tgt], self._wrap(tgt.id, load_expr))]
        if isinstance(tgt, (ast.Tuple, ast.List)):
            names = [f'__t{id(tgt)}_{k}__' for k in range(len(tgt.elts))]
            stmts = [ast.Assign([ast.Tuple([ast.Name(nm, ast.Store()) for nm in names], ast.Store())], load_expr)]
            for nm, e in zip(names, tgt.elts):
                stmts.extend(self._store(e, ast.Name(nm, ast.Load())))
            return stmts
        if isinstance(tgt, ast.Attribute):
            root = tgt.value
            while isinstance(root, (ast.Attribute, ast.Subscript)):
                root = root.value
            rt = self.types.get(getattr(root, 'id', ''), 'object')
            if rt in OBJ_TYPES or rt == 'object':
                return [ast.Assign([tgt], ast.Call(ast.Name('__unbox__', ast.Load()), [load_expr], []))]
            return [ast.Assign([tgt], load_expr)]          # struct field: StructVal converts
        if isinstance(tgt, ast.Subscript):
            root = tgt.value
            rt = self.types.get(getattr(root, 'id', ''), None)
            if isinstance(root, ast.Name) and rt in OBJ_TYPES:
                # python container: both key and value are Python objects
                tgt = ast.Subscript(tgt.value, ast.Call(ast.Name('__unbox__', ast.Load()), [tgt.slice], []), ast.Store())
                return [ast.Assign([tgt], ast.Call(ast.Name('__unbox__', ast.Load()), [load_expr], []))]
            return [ast.Assign([tgt], load_expr)]
        return [ast.Assign([tgt], load_expr)]

    def visit_Assign(self, node):
        self.generic_visit(node)
        v = node.value
        if isinstance(v, ast.Call) and getattr(v.func, 'id', None) == '__declare__':
            t = v.args[0].value
            if len(v.args) == 2:
                node.value = ast.Call(ast.Name('__conv__', ast.Load()), [ast.Constant(t), v.args[1]], []) \
                    if not t.endswith('*') else v.args[1]
            else:
                node.value = ast.Call(ast.Name('__default__', ast.Load()), [ast.Constant(t)], [])
            return node
        if isinstance(v, ast.Call) and getattr(v.func, 'id', None) in ('__array__', '__argconv__'):
            return node
        if len(node.targets) == 1 and isinstance(node.targets[0], ast.Name) and node.targets[0].id == '__ret__':
            return node
        tmp = f'__tmp{id(node)}__'
        stmts = [ast.Assign([ast.Name(tmp, ast.Store())], node.value)]
        for tgt in node.targets:
            stmts.extend(self._store(tgt, ast.Name(tmp, ast.Load())))
        return stmts

    def visit_Return(self, node):
        self.generic_visit(node)
        if node.value is not None:
            fn = '__unbox__' if self.ret in OBJ_TYPES or self.ret == 'object' else '__conv__'
            args = [node.value] if fn == '__unbox__' else [ast.Constant(self.ret), node.value]
            node.value = ast.Call(ast.Name(fn, ast.Load()), args, [])
        return node

    def visit_Yield(self, node):
        self.generic_visit(node)
        if node.value is not None:
            node.value = ast.Call(ast.Name('__unbox__', ast.Load()), [node.value], [])
        return node

    def visit_AugAssign(self, node):
        self.generic_visit(node)
        load = _as_load(node.target)
        return self._store(node.target, ast.BinOp(load, node.op, node.value))

    def visit_For(self, node):
        self.generic_visit(node)
        tmp = f'__it{id(node)}__'
        pre = self._store(node.target, ast.Name(tmp, ast.Load()))
        node.target = ast.Name(tmp, ast.Store())
        node.body = pre + node.body
        return node

    def visit_Dict(self, node):
        self.generic_visit(node)
        if not node.keys:
            return ast.Call(ast.Name('__newdict__', ast.Load()), [], [])
        return node

    def visit_Subscript(self, node):
        # reading a Python container with a C-typed key: unbox the key
        self.generic_visit(node)
        if isinstance(node.ctx, ast.Load) and isinstance(node.value, ast.Name) and \
                self.types.get(node.value.id) in OBJ_TYPES and not isinstance(node.slice, ast.Slice):
            node.slice = ast.Call(ast.Name('__unbox__', ast.Load()), [node.slice], [])
        return node


def _as_load(t):
    import copy
    t = copy.deepcopy(t)
    for n in ast.walk(t):
        if hasattr(n, 'ctx'):
            n.ctx = ast.Load()
    return t


# =================================================================================================== loader

def load(path, env=None):
    src = open(path).read()
    txt, structs = normalise(src, path)
    try:
        tree = ast.parse(txt)
    except SyntaxError as e:
        raise CySyntax(f'{path}:{e.lineno}: normalised text does not parse: {e.msg}')
    tree = Rewriter().visit(tree)
    ast.fix_missing_locations(tree)

    def default(t):
        if t in INT_TYPES:
            return CVal(0, t)
        if t == 'double':
            return 0.0
        if t in structs:
            return StructVal(t, structs)
        return None

    def addr(arr, off):
        if isinstance(arr, Ptr):
            return Ptr(arr.arr, arr.off + int(off) * (arr.size() if arr.arr.t == 'unsigned char' else 1), arr.t, structs)
        return Ptr(arr, int(off), arr.t, structs)

    def memset(a, v, n):
        a.fill(int(v))

    ns = {'__unbox__': unbox, '__conv__': conv, '__cast__': lambda t: Cast(t, structs),
          '__array__': lambda t, n: CArray(t, n), '__argconv__': argconv, '__default__': default,
          '__addr__': addr, '__frexp__': c_frexp, '__structs__': structs,
          'PyMem_Malloc': lambda n: ('malloc', int(n)), 'PyMem_Free': lambda p: None,
          'sizeof': lambda t: SIZEOF[t] if t in SIZEOF else struct_size(t, structs),
          'ldexp': c_ldexp, 'memset': memset, '_PyDict_NewPresized': lambda n: {}, '__newdict__': dict}
    ns.update(env or {})
    exec(compile(tree, path, 'exec'), ns)
    ns['__normalised__'] = txt
    return ns


PYX = {'pack': '/repo/chython/containers/_pack_v2.pyx', 'unpack': '/repo/chython/containers/_unpack_v0v2.pyx',
       'isomorphism': '/repo/chython/algorithms/_isomorphism.pyx'}
_LOADED = {}


def module(name, env=None, fresh=False):
    if fresh or name not in _LOADED:
        _LOADED[name] = load(PYX[name], env)
    return _LOADED[name]


def install():
    """make the interpreted sources importable as the extension modules so the real Python callers use them"""
    import sys
    import types
    for key, modname, funcs in (('pack', 'chython.containers._pack_v2', ['pack']),
                                ('unpack', 'chython.containers._unpack_v0v2', ['unpack']),
                                ('isomorphism', 'chython.algorithms._isomorphism', ['get_mapping'])):
        ns = module(key)
        m = types.ModuleType(modname)
        for f in funcs:
            setattr(m, f, ns[f])
        m.__cysym__ = ns
        sys.modules[modname] = m
        parent, _, leaf = modname.rpartition('.')
        import importlib
        setattr(importlib.import_module(parent), leaf, m)
