"""check runner: shards jobs over worker processes, aggregates statistics, replays counterexamples natively,
applies the known-findings list, prints VIOLATION / KNOWN-FINDING lines and writes evidence/<id>.json."""
import hashlib
import importlib
import json
import multiprocessing as mp
import os
import signal
import sys
import time
import traceback

ROOT = os.path.dirname(os.path.dirname(os.path.abspath(__file__)))
EXIT_OK, EXIT_VIOLATION, EXIT_HARNESS = 0, 1, 2


class JobTimeout(BaseException):
    pass


def _alarm(signum, frame):
    raise JobTimeout()


def load_check(prop):
    return importlib.import_module(f'checks.{prop.lower()}')


def _run_job(args):
    prop, idx, job, seed = args
    from vlib import bootstrap  # noqa: F401  (shim before chython)
    from vlib import minisym
    mod = load_check(prop)
    fn = mod.HARNESSES[job['harness']]
    params = job.get('params', {})
    hooks = getattr(mod, 'HOOKS', {}).get(job['harness'], (None, None))
    budget = float(job.get('budget_s', 300))
    res = {'idx': idx, 'job': {k: v for k, v in job.items()}, 'error': None}
    signal.signal(signal.SIGALRM, _alarm)
    signal.setitimer(signal.ITIMER_REAL, budget * 1.5 + 30)
    t0 = time.perf_counter()
    try:
        if job.get('direct'):
            # engine C: the harness builds and discharges its own z3 queries and returns a stats dict
            st = fn(**params)
            res['stats'] = st
        else:
            st = minisym.explore(lambda V: fn(V, **params), budget_s=budget, setup=hooks[0], teardown=hooks[1],
                                 max_paths=job.get('max_paths', 500000),
                                 validate_every=job.get('validate_every', 1),
                                 validate=job.get('validate', True),
                                 query_timeout_ms=job.get('query_timeout_ms', 30000),
                                 reals_as=job.get('reals_as', 'fraction'), som=job.get('som', False),
                                 max_failures=job.get('max_failures', 5))
            res['stats'] = st.as_dict()
    except JobTimeout:
        res['error'] = f'job exceeded hard wall limit ({budget * 1.5 + 30:.0f}s)'
    except BaseException as e:  # engine bug or harness bug: never a verdict
        res['error'] = f'{type(e).__name__}: {e}\n' + traceback.format_exc(limit=-8)
    finally:
        signal.setitimer(signal.ITIMER_REAL, 0)
    res['wall_s'] = time.perf_counter() - t0
    return res


def replay_failure(prop, job, failure):
    """native re-run; True when the failing label reproduces"""
    from vlib import bootstrap  # noqa: F401
    from vlib import minisym
    mod = load_check(prop)
    fn = mod.HARNESSES[job['harness']]
    params = job.get('params', {})
    if job.get('direct'):
        rp = getattr(mod, 'REPLAY', {}).get(job['harness'])
        if rp is None:
            return False
        return bool(rp(failure, **params))
    hooks = getattr(mod, 'HOOKS', {}).get(job['harness'], (None, None))
    failed = minisym.replay(lambda V: fn(V, **params), failure['model'], setup=hooks[0], teardown=hooks[1],
                            reals_as=job.get('reals_as', 'fraction'))
    return failure['label'] in failed


def load_known():
    p = os.path.join(ROOT, 'known_findings.json')
    if not os.path.exists(p):
        return []
    return json.load(open(p))['findings']


def default_key(job, failure):
    return f"{job['harness']}:{failure['label']}"


def run_check(prop, tier, seed, only=None):
    t0 = time.perf_counter()
    sys.path.insert(0, ROOT)
    mod = load_check(prop)
    jobs = mod.jobs(tier)
    for j in jobs:
        j.setdefault('name', j['harness'] + ('' if not j.get('params') else ':' + ','.join(
            f'{k}={v}' for k, v in sorted(j['params'].items()) if not isinstance(v, (list, dict)) or len(str(v)) < 40)))
    if only:
        jobs = [j for j in jobs if only in j['harness'] or only == j['name']]
        if not jobs:
            print(f'HARNESS-ERROR: no job matches --only {only}')
            return 2
    nproc = int(os.environ.get('VERIF_PROCS', '16'))
    order = sorted(range(len(jobs)), key=lambda i: -float(jobs[i].get('weight', jobs[i].get('budget_s', 300))))
    args = [(prop, i, jobs[i], seed) for i in order]
    results = [None] * len(jobs)
    if nproc <= 1 or len(jobs) == 1:
        for a in args:
            r = _run_job(a)
            results[r['idx']] = r
    else:
        with mp.get_context('fork').Pool(min(nproc, len(jobs)), maxtasksperchild=8) as pool:
            for r in pool.imap_unordered(_run_job, args, chunksize=1):
                results[r['idx']] = r
    return finish(prop, tier, seed, mod, jobs, results, t0)


def finish(prop, tier, seed, mod, jobs, results, t0):
    known = [k for k in load_known() if k['property'] == prop]
    known_keys = {k['key']: k for k in known if k.get('status') == 'known'}
    keyfn = getattr(mod, 'finding_key', default_key)
    agg = dict(paths=0, aborted=0, decisions=0, realisations=0, queries=0, solver_s=0.0, assertions=0, validated=0)
    harness_errors, inconclusive, violations, known_hits, samples, notes = [], [], [], [], [], set()
    twins_ok = twins_total = 0
    per_job = []
    exhaustive = True
    seen_keys = set()
    out_dir = os.path.join(ROOT, 'out', 'replays')
    os.makedirs(out_dir, exist_ok=True)
    for job, r in zip(jobs, results):
        if r is None or r['error']:
            harness_errors.append(f"{job['name']}: {r['error'] if r else 'no result'}")
            continue
        st = r['stats']
        for k in agg:
            agg[k] += st.get(k, 0)
        notes.update(st.get('notes', ()))
        pj = {'job': job['name'], 'paths': st.get('paths', 0), 'queries': st.get('queries', 0),
              'solver_s': round(st.get('solver_s', 0.0), 3), 'wall_s': round(r['wall_s'], 2),
              'assertions': st.get('assertions', 0), 'exhaustive': bool(st.get('exhaustive', True))}
        per_job.append(pj)
        if st.get('validation_mismatch'):
            harness_errors.append(f"{job['name']}: engine validation mismatch {json.dumps(st['validation_mismatch'][0])[:600]}")
        is_twin = bool(job.get('twin'))
        if is_twin:
            twins_total += 1
            if st.get('failures'):
                twins_ok += 1
            else:
                harness_errors.append(f"{job['name']}: reachability twin was not violated (vacuous harness)")
            continue
        if not st.get('exhaustive', True):
            exhaustive = False
        for msg in st.get('inconclusive', ()):
            inconclusive.append(f"{job['name']}: {msg}")
        if st.get('assertions', 0) == 0 and not st.get('failures'):
            harness_errors.append(f"{job['name']}: no assertion reached")
        if len(samples) < 6:
            for s in st.get('samples', ())[:1]:
                samples.append({'job': job['name'], **s})
        for f in st.get('failures', ()):
            key = f"{prop}:{keyfn(job, f)}"
            if key in seen_keys:
                continue
            seen_keys.add(key)
            try:
                ok = replay_failure(prop, job, f)
            except BaseException as e:
                ok = False
                f = dict(f, replay_error=f'{type(e).__name__}: {e}')
            if not ok:
                inconclusive.append(f"{job['name']}: counterexample for '{f['label']}' did not reproduce natively "
                                    f"(model {json.dumps(f['model'])[:300]})")
                harness_errors.append(f"{job['name']}: non-reproducing counterexample '{f['label']}'")
                continue
            if key in known_keys:
                known_hits.append((key, known_keys[key]['what']))
                continue
            h = hashlib.sha1(key.encode()).hexdigest()[:10]
            path = os.path.join(out_dir, f'{prop}_{h}.json')
            json.dump({'property': prop, 'key': key, 'job': job, 'failure': f}, open(path, 'w'), indent=1, default=str)
            violations.append((key, path, f))
    meta = getattr(mod, 'META', {})
    wall = time.perf_counter() - t0
    ev = {
        'property_id': prop, 'tier': tier, 'seed': seed, 'level': 'model_checking',
        'coverage': {
            'states': max(agg['paths'], 0), 'transitions': agg['decisions'] + agg['realisations'],
            'traces_validated_against_impl': agg['validated'],
            'samples': samples or [{'note': 'no completed path'}],
            'exhaustive': bool(exhaustive and not inconclusive and not harness_errors),
            'paths': agg['paths'], 'paths_infeasible_or_pruned': agg['aborted'],
            'branch_decisions': agg['decisions'], 'realisations': agg['realisations'],
            'solver_queries': agg['queries'], 'solver_s': round(agg['solver_s'], 2),
            'assertions_reached': agg['assertions'],
            'reachability_twins': {'expected_violated': twins_total, 'violated': twins_ok},
            'inconclusive': len(inconclusive), 'inconclusive_detail': inconclusive[:20],
            'harness_errors': harness_errors[:20],
            'known_findings_hit': [k for k, _ in known_hits],
            'functions_encoded': meta.get('functions_encoded', []),
            'bounds': (meta.get('bounds', {}).get(tier, meta.get('bounds')) if isinstance(meta.get('bounds'), dict) else meta.get('bounds', '')),
            'outside_claim': meta.get('outside_claim', []),
            'stubs': meta.get('stubs', []),
            'engine': meta.get('engine', 'minisym (z3 %s) proxy execution of the real code, re-execution DFS' % _z3v()),
            'jobs': per_job[:400], 'notes': sorted(notes)[:40],
            'trusted_base': ['z3', 'vlib/minisym.py proxies', 'vlib/bootstrap.py CachedMethods shim'],
        },
        'assumptions': meta.get('assumptions', []) + ['CachedMethods shim (vlib/bootstrap.py)'],
        'wall_s': round(wall, 2), 'violations': len(violations),
    }
    os.makedirs(os.path.join(ROOT, 'evidence'), exist_ok=True)
    json.dump(ev, open(os.path.join(ROOT, 'evidence', f'{prop}.json'), 'w'), indent=1, default=str)
    for key, what in known_hits:
        print(f'KNOWN-FINDING: property={prop} {what} [{key}]')
    for key, path, f in violations:
        print(f'VIOLATION property={prop} replay={path}')
        print(f'  key={key} label={f["label"]} model={json.dumps(f["model"])[:400]}')
        if f.get('info'):
            print(f'  info={json.dumps(f["info"])[:600]}')
    print(f'{prop} {tier}: jobs={len(jobs)} paths={agg["paths"]} decisions={agg["decisions"]} '
          f'realisations={agg["realisations"]} queries={agg["queries"]} solver_s={agg["solver_s"]:.1f} '
          f'assertions={agg["assertions"]} validated={agg["validated"]} twins={twins_ok}/{twins_total} '
          f'inconclusive={len(inconclusive)} violations={len(violations)} known={len(known_hits)} wall={wall:.1f}s')
    if violations:
        return EXIT_VIOLATION
    if harness_errors:
        for e in harness_errors[:10]:
            print('HARNESS-ERROR:', e, file=sys.stderr)
        return EXIT_HARNESS
    if inconclusive:
        for e in inconclusive[:10]:
            print('INCONCLUSIVE:', e, file=sys.stderr)
        return EXIT_HARNESS
    return EXIT_OK


def _z3v():
    try:
        import z3
        return z3.get_version_string()
    except Exception:
        return '?'


def replay_file(path):
    sys.path.insert(0, ROOT)
    d = json.load(open(path))
    ok = replay_failure(d['property'], d['job'], d['failure'])
    print(('REPRODUCED' if ok else 'NOT REPRODUCED'), d['key'], json.dumps(d['failure']['model'])[:400])
    return EXIT_VIOLATION if ok else EXIT_OK


def main(argv):
    if argv and argv[0] == 'replay':
        return replay_file(argv[1])
    prop = argv[0].upper()
    tier = os.environ.get('VERIF_TIER', 'quick')
    only = None
    i = 1
    while i < len(argv):
        if argv[i] == '--tier':
            tier = argv[i + 1]
            i += 2
        elif argv[i] == '--only':
            only = argv[i + 1]
            i += 2
        else:
            i += 1
    seed = int(os.environ.get('VERIF_SEED', '0'))
    return run_check(prop, tier, seed, only)


if __name__ == '__main__':
    sys.exit(main(sys.argv[1:]))
