"""symbolic characters and the source lifting that lets chython's character-level code run on them"""
import ast
import inspect
import sre_parse
import unicodedata

import z3

from . import minisym
from .minisym import SymBool, SymInt


def _ranges(pred):
    out, start = [], None
    for cp in range(0x110000):
        if pred(chr(cp)):
            if start is None:
                start = cp
        elif start is not None:
            out.append((start, cp - 1))
            start = None
    if start is not None:
        out.append((start, 0x10FFFF))
    return out


_TABLES = {}


def tables():
    """Unicode facts computed from this interpreter's unicodedata (not copied from anywhere)"""
    if not _TABLES:
        _TABLES['numeric'] = _ranges(str.isnumeric)
        nd = _ranges(lambda c: unicodedata.category(c) == 'Nd')
        # every run of decimal digits is a multiple of ten consecutive code points valued 0..9
        assert all((b - a + 1) % 10 == 0 and all(int(chr(x)) == (x - a) % 10 for x in range(a, b + 1)) for a, b in nd)
        _TABLES['nd'] = nd
        _TABLES['space'] = _ranges(str.isspace)
    return _TABLES


NON_ASCII_REPRESENTATIVE = 'é'


class SymChar:
    """one character: a code point 0..0x10FFFF as a z3 Int"""
    __slots__ = ('e',)

    def __init__(self, e):
        self.e = e

    def _o(self, o):
        if isinstance(o, SymChar):
            return o.e
        if isinstance(o, str) and len(o) == 1:
            cp = ord(o)
            if cp >= 128:
                reps = compact_table()
                cp = 128 + reps.index(cp) if cp in reps else -1
            return z3.IntVal(cp)
        return None

    def __eq__(self, o):
        l = self._o(o)
        return False if l is None else SymBool(self.e == l)

    def __ne__(self, o):
        l = self._o(o)
        return True if l is None else SymBool(self.e != l)

    def __lt__(self, o):
        return SymBool(self.e < self._o(o))

    def __le__(self, o):
        return SymBool(self.e <= self._o(o))

    def __gt__(self, o):
        return SymBool(self.e > self._o(o))

    def __ge__(self, o):
        return SymBool(self.e >= self._o(o))

    def _in_ranges(self, rs):
        return SymBool(z3.Or(*[z3.And(self.e >= a, self.e <= b) if a != b else self.e == a for a, b in rs]))

    def isnumeric(self):
        compact_table()
        idx = [128 + i for i, (k, _) in enumerate(_TABLES['compact_kind']) if k in ('digit', 'numeric')]
        return SymBool(z3.Or(z3.And(self.e >= 48, self.e <= 57), *[self.e == r for r in idx]))

    def isspace(self):
        compact_table()
        asc = [cp for cp in range(128) if chr(cp).isspace()]
        idx = [128 + i for i, (k, _) in enumerate(_TABLES['compact_kind']) if k == 'space']
        return SymBool(z3.Or(*[self.e == r for r in asc + idx]))

    def is_ascii_digit(self):
        return SymBool(z3.And(self.e >= 48, self.e <= 57))

    def ascii_digit_value(self):
        return SymInt(self.e - 48)

    def concrete(self):
        """ASCII characters are realised one by one; all non-ASCII characters are represented by one of them while the
        path keeps only the constraint 'not ASCII' (sound for code whose behaviour past this point depends on a
        non-ASCII character only through ASCII-only tests; the users of this method establish that)"""
        v = minisym.CTX.realize(self.e).as_long()
        return chr(v) if v < 128 else chr(compact_table()[v - 128])

    def __hash__(self):
        return hash(self.concrete())

    def __str__(self):
        return self.concrete()

    def upper(self):
        return self.concrete().upper()

    def lower(self):
        return self.concrete().lower()

    def sym_int(self):
        """int(ch) of Python for a numeric character; decimal digits keep a symbolic value"""
        if bool(self.is_ascii_digit()):
            return SymInt(self.e - 48)
        compact_table()
        for i, (k, d) in enumerate(_TABLES['compact_kind']):
            if k == 'digit' and bool(SymBool(self.e == 128 + i)):
                return d
        raise ValueError('invalid literal for int() with base 10')

    def __repr__(self):
        return f'SymChar({self.e})'


def sym_in(x, container):
    if isinstance(x, SymChar) and isinstance(container, str):
        for c in container:
            if x == c:
                return True
        return False
    return x in container


def sym_int(x):
    if isinstance(x, SymChar):
        return x.sym_int()
    if isinstance(x, (list, tuple)):
        return int(''.join(c.concrete() if isinstance(c, SymChar) else c for c in x))
    return int(x)


class _Joiner:
    def __init__(self, sep):
        self.sep = sep

    def join(self, items):
        return self.sep.join(c.concrete() if isinstance(c, SymChar) else c for c in items)


class Lift(ast.NodeTransformer):
    """`x in '<literal>'` -> char-by-char test; int(...) -> sym_int; '<literal>'.join(...) -> realising join"""

    def visit_Compare(self, node):
        self.generic_visit(node)
        if len(node.ops) == 1 and isinstance(node.ops[0], (ast.In, ast.NotIn)) and \
                isinstance(node.comparators[0], ast.Constant) and isinstance(node.comparators[0].value, str):
            call = ast.Call(ast.Name('__sym_in__', ast.Load()), [node.left, node.comparators[0]], [])
            if isinstance(node.ops[0], ast.NotIn):
                return ast.UnaryOp(ast.Not(), call)
            return call
        return node

    def visit_Call(self, node):
        self.generic_visit(node)
        if isinstance(node.func, ast.Name) and node.func.id == 'int' and len(node.args) == 1:
            return ast.Call(ast.Name('__sym_int__', ast.Load()), node.args, [])
        if isinstance(node.func, ast.Attribute) and node.func.attr == 'join' and isinstance(node.func.value, ast.Constant) \
                and isinstance(node.func.value.value, str):
            return ast.Call(ast.Attribute(ast.Call(ast.Name('__Joiner__', ast.Load()), [node.func.value], []), 'join',
                                          ast.Load()), node.args, [])
        return node


def lift_function(fn, extra=None):
    """re-compile `fn` from its current source with the rewrites above, in a copy of its module namespace"""
    src = inspect.getsource(fn)
    tree = ast.parse(src)
    tree = Lift().visit(tree)
    ast.fix_missing_locations(tree)
    ns = dict(fn.__globals__)
    ns.update({'__sym_in__': sym_in, '__sym_int__': sym_int, '__Joiner__': _Joiner})
    ns.update(extra or {})
    exec(compile(tree, f'<lifted {fn.__module__}.{fn.__name__}>', 'exec'), ns)
    return ns[fn.__name__]


def regex_is_ascii_only(pattern):
    """True when a compiled regex mentions only ASCII literals / ranges and no character categories: then it cannot
    match any string containing a non-ASCII character except through negated sets (also excluded)"""
    def walk(items):
        for op, arg in items:
            name = str(op)
            if name == 'LITERAL':
                if arg >= 128:
                    return False
            elif name == 'NOT_LITERAL' or name == 'ANY' or name == 'CATEGORY':
                return False
            elif name == 'IN':
                for o2, a2 in arg:
                    n2 = str(o2)
                    if n2 == 'NEGATE' or n2 == 'CATEGORY':
                        return False
                    if n2 == 'LITERAL' and a2 >= 128:
                        return False
                    if n2 == 'RANGE' and a2[1] >= 128:
                        return False
            elif name in ('MAX_REPEAT', 'MIN_REPEAT', 'POSSESSIVE_REPEAT'):
                if not walk(arg[2]):
                    return False
            elif name == 'SUBPATTERN':
                if not walk(arg[3]):
                    return False
            elif name == 'BRANCH':
                for br in arg[1]:
                    if not walk(br):
                        return False
            elif name in ('AT',):
                continue
            else:
                return False
        return True
    return walk(sre_parse.parse(pattern.pattern, pattern.flags))


def char_classes():
    """partition of the non-ASCII code points by everything SymChar can observe about them: isnumeric() and the decimal
    value int() gives; one representative per class (computed from unicodedata)"""
    if 'classes' not in _TABLES:
        t = tables()
        reps = {}
        for a, b in t['nd']:
            if a >= 128:
                for d in range(10):
                    reps.setdefault(('digit', d), a + d)
        for a, b in t['numeric']:
            for cp in range(max(a, 128), b + 1):
                if unicodedata.category(chr(cp)) != 'Nd':
                    reps.setdefault(('numeric', None), cp)
                    break
        reps[('other', None)] = ord(NON_ASCII_REPRESENTATIVE)
        sp = [cp for a, b in t['space'] for cp in range(max(a, 128), b + 1)]
        if sp:
            reps[('space', None)] = sp[0]
        _TABLES['classes'] = reps
    return _TABLES['classes']


def compact_table():
    """compact alphabet: codes 0..127 are ASCII, codes 128.. are the class representatives of the non-ASCII characters"""
    if 'compact' not in _TABLES:
        reps = sorted(char_classes().items(), key=lambda kv: kv[1])
        _TABLES['compact'] = [cp for _, cp in reps]
        _TABLES['compact_kind'] = [k for k, _ in reps]
    return _TABLES['compact']


def sym_string(V, name, n):
    """n characters ranging over all of Unicode: every ASCII character individually, every non-ASCII character through the
    representative of its class (see char_classes), encoded compactly (code 128+k = k-th representative); a plain str when
    V is the concrete replay factory"""
    reps = compact_table()
    if V.symbolic:
        return [SymChar(V.int(f'{name}{i}', 0, 127 + len(reps)).e) for i in range(n)]
    cps = [V.int(f'{name}{i}', 0, 127 + len(reps)) for i in range(n)]
    return ''.join(chr(c if c < 128 else reps[c - 128]) for c in cps)


def representative(V, s):
    """a concrete str for the (symbolic) string s on the current path, without pinning its characters"""
    if isinstance(s, str):
        return s
    reps = compact_table()
    sym = [c for c in s if isinstance(c, SymChar)]
    codes = iter(V.peek([c.e for c in sym])) if sym else iter(())
    out = []
    for c in s:
        if isinstance(c, SymChar):
            k = next(codes)
            out.append(chr(k if k < 128 else reps[k - 128]))
        else:
            out.append(c)
    return ''.join(out)
