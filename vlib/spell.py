"""order-nondeterminism device: chython's own random-order SMILES writer with `random()` symbolic, so that the engine
explores every traversal the writer can produce (one path per distinct comparison outcome)"""
import random as _random

import z3

from . import minisym
from .minisym import SymReal, SymBool


class symbolic_random:
    """context manager: chython.algorithms.smiles.random -> fresh symbolic real in [0,1); min -> n-way argmin"""

    def __init__(self, V):
        self.V = V

    def __enter__(self):
        import chython.algorithms.smiles as sm
        self.sm = sm
        V = self.V

        def rnd():
            return V.fresh_real('rnd', 0, 1)

        def sym_min(iterable, *, key=None, default=None):
            items = list(iterable)
            if key is None or not items:
                return min(items, key=key) if items else default
            keys = [key(x) for x in items]
            if not any(isinstance(k, SymReal) for k in keys):
                return items[keys.index(min(keys))]
            if len(items) == 1:
                return items[0]
            # one branch per candidate instead of one per comparison (ties have probability zero: outside the claim)
            for i in range(len(items) - 1):
                cond = z3.And(*[keys[i].e < keys[j].e for j in range(len(items)) if j != i])
                if minisym.CTX.decide(cond):
                    return items[i]
            minisym.CTX.add(z3.And(*[keys[-1].e < keys[j].e for j in range(len(items) - 1)]))
            return items[-1]

        sm.random = rnd
        if V.symbolic:
            sm.min = sym_min
        return self

    def __exit__(self, *exc):
        self.sm.random = _random.random
        if 'min' in self.sm.__dict__:
            del self.sm.__dict__['min']
        return False


def respell(V, mol, spec='r'):
    """(text, written atom order) of one symbolic random-order spelling"""
    with symbolic_random(V):
        text, order = mol.__format__(spec, _return_order=True)
        if '!x' not in spec:
            cx = mol._format_cxsmiles(order)
            if cx is not None:
                text = f'{text} {cx}'
    return text, list(order)
