"""Trusted base of every check: make CachedMethods 0.2.0's class_cached_property tolerate slotted classes.

The release installed in /venv reads ``obj.__dict__`` unguarded, so every use of a chython ``Element`` (which has
``__slots__``) raises AttributeError.  No chython line is wrong; the properties are about the library with working
molecules, so the harness replaces that single descriptor method with a slot-tolerant equivalent (same caching:
per-class cache, plus the instance dict when there is one).  Imported before chython by every check.
"""
import sys
sys.dont_write_bytecode = True
import CachedMethods as _cm

_S = _cm._SENTINEL


def _get(self, obj, cls):
    if obj is None:
        return self
    d = getattr(obj, '__dict__', None)
    if d is not None:
        v = d.get(self.name, _S)
        if v is not _S:
            return v
    cc = cls.__class_cache__.get(cls)
    if cc is None:
        cc = cls.__class_cache__[cls] = {}
    v = cc.get(self.name, _S)
    if v is _S:
        v = cc[self.name] = _cm._freeze(self.func(obj))
    if d is not None:
        d[self.name] = v
    return v


_cm.class_cached_property.__get__ = _get
SHIM_NOTE = ('CachedMethods 0.2.0 class_cached_property.__get__ replaced by a slot-tolerant equivalent '
             '(verif/vlib/bootstrap.py); third-party incompatibility, not chython code')
