"""minisym -- a small symbolic executor for running real Python code on z3-backed proxy values.

Exploration is a stateless depth-first search by re-execution: the harness function is called once per
control-flow path; a branch on a symbolic condition asks the solver which outcomes are feasible under the current
path condition, takes one and leaves the other on the backtrack trail.  Values that the code hashes, uses as an
index or formats are *realised*: the solver hands out one feasible value per path until it reports that no other
value exists.  The search ends when every alternative has been refuted (`unsat`) or explored: that is the
exhaustiveness certificate for the stated variable domains.

A harness is written once against a value factory `V` (symbolic here, plain Python in `ConcreteV`), so that every
model the solver produces can be replayed against the real code without any engine in the loop.
"""
import time
import traceback
from fractions import Fraction

import z3


class Abort(BaseException):
    """current path is infeasible / exhausted (not an error)"""


class Inconclusive(BaseException):
    """solver said unknown, engine limit reached, or replay diverged; never a verdict"""


class EngineError(Exception):
    pass


# ------------------------------------------------------------------ context

class Ctx:
    def __init__(self, script, timeout_ms):
        self.solver = z3.Solver()
        self.solver.set('timeout', timeout_ms)
        self.timeout_ms = timeout_ms
        self.retries = 0
        self._alt_model = None
        self.script = script      # list of entries to replay
        self.pos = 0
        self.trail = []           # entries actually taken on this path
        self.queries = 0
        self.qtime = 0.0
        self.new_decisions = 0
        self.realisations = 0
        self.vars = {}            # name -> (kind, z3 expr)
        self.observed = []        # (key, value-or-proxy)
        self.fresh = 0
        self.assertions = 0
        self.subst = []
        self.som = False      # normalise polynomials to sums of monomials (helps nonlinear real identities)

    def check(self, *extra):
        t = time.perf_counter()
        self._alt_model = None
        r = self.solver.check(*extra)
        if r == z3.unknown:
            r = self._retry(extra)
        self.qtime += time.perf_counter() - t
        self.queries += 1
        return r

    def _retry(self, extra):
        # heavy-tailed nonlinear queries: re-ask fresh solvers (other seed, then the nlsat tactic) before giving up
        self.retries += 1
        for k, mk in enumerate((lambda: z3.Solver(), lambda: z3.Then('simplify', 'qfnra-nlsat').solver(),
                                lambda: z3.Solver())):
            try:
                s2 = mk()
                s2.set('timeout', self.timeout_ms * (2 + k))
                if k != 1:
                    s2.set('random_seed', 11 + 17 * k)
                s2.add(self.solver.assertions())
                s2.add(*extra)
                r = s2.check()
            except z3.Z3Exception:
                continue
            if r != z3.unknown:
                if r == z3.sat:
                    self._alt_model = s2.model()
                return r
        return z3.unknown

    def add(self, c):
        self.solver.add(c)

    def model(self):
        return self._alt_model if self._alt_model is not None else self.solver.model()

    # entries: ['B', cond_hash, value, has_alt]  |  ['R', expr_hash, excluded(list of z3 vals), cur, more]
    def _note_equality(self, cond, value):
        """remember `variable == numeral` facts of the path: later conditions are rewritten with them, which settles
        most repeated tests on an already pinned variable without a solver call"""
        if value and z3.is_eq(cond):
            a, b = cond.arg(0), cond.arg(1)
            if z3.is_int_value(a) or z3.is_bv_value(a):
                a, b = b, a
            if z3.is_const(a) and a.decl().kind() == z3.Z3_OP_UNINTERPRETED and (z3.is_int_value(b) or z3.is_bv_value(b)):
                self.subst.append((a, b))

    def decide(self, cond):
        h = _fingerprint(cond)
        if self.subst:
            cond = z3.substitute(cond, *self.subst)
        cond = z3.simplify(cond, som=True) if self.som else z3.simplify(cond)
        if z3.is_true(cond):
            return True
        if z3.is_false(cond):
            return False
        if self.pos < len(self.script):
            ent = self.script[self.pos]
            if ent[0] != 'B' or ent[1] != h:
                raise Inconclusive(f'replay diverged at decision {self.pos}')
            self.pos += 1
            self.trail.append(ent)
            self.solver.add(cond if ent[2] else z3.Not(cond))
            self._note_equality(cond, ent[2])
            return ent[2]
        rt = self.check(cond)
        # the path condition itself is satisfiable (invariant of the search), so cond infeasible => not cond feasible
        rf = z3.sat if rt == z3.unsat else self.check(z3.Not(cond))
        if rt == z3.unknown or rf == z3.unknown:
            raise Inconclusive('solver returned unknown on a branch condition')
        t_ok, f_ok = rt == z3.sat, rf == z3.sat
        if t_ok and f_ok:
            ent = ['B', h, True, True]
        elif t_ok:
            ent = ['B', h, True, False]
        elif f_ok:
            ent = ['B', h, False, False]
        else:
            # the path condition is satisfiable by construction (assume() checks for itself), so this can only mean
            # that a replayed prefix was applied to different conditions: the harness is not deterministic
            raise Inconclusive('path condition became unsatisfiable: replay diverged')
        self.new_decisions += 1
        self.pos += 1
        self.trail.append(ent)
        self.script.append(ent)
        self.solver.add(cond if ent[2] else z3.Not(cond))
        self._note_equality(cond, ent[2])
        return ent[2]

    def realize(self, expr):
        """return a concrete z3 value for expr; every feasible value is visited on some path"""
        h = _fingerprint(expr)
        if self.subst:
            expr = z3.substitute(expr, *self.subst)
        expr = z3.simplify(expr)
        if z3.is_int_value(expr) or z3.is_bv_value(expr) or z3.is_rational_value(expr) or z3.is_true(expr) \
                or z3.is_false(expr):
            return expr
        if self.pos < len(self.script):
            ent = self.script[self.pos]
            if ent[0] != 'R' or ent[1] != h:
                raise Inconclusive(f'replay diverged at realisation {self.pos}')
        else:
            ent = ['R', h, [], None, True]
            self.script.append(ent)
        self.pos += 1
        self.trail.append(ent)
        for v in ent[2]:
            self.solver.add(expr != v)
        if ent[3] is None:
            r = self.check()
            if r == z3.unknown:
                raise Inconclusive('solver returned unknown while realising')
            if r == z3.unsat:
                raise Inconclusive('no value left for a realisation that had one: replay diverged')
            v = self.model().eval(expr, model_completion=True)
            r2 = self.check(expr != v)
            if r2 == z3.unknown:
                raise Inconclusive('solver returned unknown while realising')
            ent[3] = v
            ent[4] = r2 == z3.sat
            self.realisations += 1
        self.solver.add(expr == ent[3])
        if z3.is_const(expr) and expr.decl().kind() == z3.Z3_OP_UNINTERPRETED and \
                (z3.is_int_value(ent[3]) or z3.is_bv_value(ent[3])):
            self.subst.append((expr, ent[3]))
        return ent[3]

    def model_values(self):
        r = self.check()
        if r != z3.sat:
            return None
        m = self.model()
        out = {}
        for name, (kind, e) in self.vars.items():
            if kind == 'fp':
                v = m.eval(z3.fpToIEEEBV(e), model_completion=True)
                out[name] = v.as_long()          # IEEE-754 bit pattern of the double
                continue
            v = m.eval(e, model_completion=True)
            out[name] = v.as_signed_long() if kind == 'wint' and z3.is_bv_value(v) else _pyval(v)
        return m, out


def _fingerprint(e):
    # identity of a decision point across re-executions.  The expression text is not usable (simplification orders
    # commutative arguments by AST id, which changes between re-executions), so only the sort is compared here; a
    # diverged replay is caught semantically: a replayed prefix must stay satisfiable (see decide / realize).
    return e.sort().name()


def _pyval(v):
    if z3.is_int_value(v):
        return v.as_long()
    if z3.is_bv_value(v):
        return v.as_long()
    if z3.is_true(v):
        return True
    if z3.is_false(v):
        return False
    if z3.is_rational_value(v):
        return f'{v.numerator_as_long()}/{v.denominator_as_long()}'
    if z3.is_algebraic_value(v):
        a = v.approx(30)
        return f'{a.numerator_as_long()}/{a.denominator_as_long()}'
    if z3.is_fp(v) or z3.is_fprm(v):
        return str(v)
    return str(v)


CTX = None
WIDE = 160


def ctx():
    return CTX


# ------------------------------------------------------------------ proxies

def _is_num(o):
    return isinstance(o, int) and not isinstance(o, bool) or isinstance(o, bool)


class SymBool:
    __slots__ = ('e',)

    def __init__(self, e):
        self.e = e

    def __bool__(self):
        return CTX.decide(self.e)

    def __eq__(self, o):
        if isinstance(o, SymBool):
            return SymBool(self.e == o.e)
        if isinstance(o, bool):
            return SymBool(self.e if o else z3.Not(self.e))
        if isinstance(o, int):
            return SymBool(z3.If(self.e, 1, 0) == o)
        if isinstance(o, SymInt):
            return SymBool(z3.If(self.e, 1, 0) == o.e)
        return False

    def __ne__(self, o):
        r = self.__eq__(o)
        return (not r) if isinstance(r, bool) else SymBool(z3.Not(r.e))

    def __invert__(self):   # not python semantics of ~True, but handy in harnesses
        return SymBool(z3.Not(self.e))

    def __and__(self, o):
        return SymBool(z3.And(self.e, _b(o)))
    __rand__ = __and__

    def __or__(self, o):
        return SymBool(z3.Or(self.e, _b(o)))
    __ror__ = __or__

    def __xor__(self, o):
        return SymBool(z3.Xor(self.e, _b(o)))
    __rxor__ = __xor__

    def __hash__(self):
        return hash(bool(self))

    def __index__(self):
        return int(bool(self))
    __int__ = __index__

    def __repr__(self):
        return f'SymBool({self.e})'

    def as_int(self):
        return SymInt(z3.If(self.e, z3.IntVal(1), z3.IntVal(0)))


def _b(o):
    if isinstance(o, SymBool):
        return o.e
    if isinstance(o, (bool, int)):
        return z3.BoolVal(bool(o))
    if isinstance(o, z3.BoolRef):
        return o
    raise TypeError(f'not a boolean: {o!r}')


def _plain(*xs):
    return all(isinstance(x, (bool, int)) and not isinstance(x, (SymBool,)) for x in xs)


def implies(a, b):
    if _plain(a, b):
        return (not a) or bool(b)
    return SymBool(z3.Implies(_b(a), _b(b)))


def s_and(*xs):
    if _plain(*xs):
        return all(xs)
    return SymBool(z3.And(*[_b(x) for x in xs]))


def s_or(*xs):
    if _plain(*xs):
        return any(xs)
    return SymBool(z3.Or(*[_b(x) for x in xs]))


def s_not(x):
    if _plain(x):
        return not x
    return SymBool(z3.Not(_b(x)))


def s_iff(a, b):
    if _plain(a, b):
        return bool(a) == bool(b)
    return SymBool(_b(a) == _b(b))


def lift_bool(x):
    """SymBool for a python bool / SymBool"""
    return x if isinstance(x, SymBool) else SymBool(z3.BoolVal(bool(x)))


def ite(c, a, b):
    """symbolic if-then-else over ints / bools (no fork)"""
    if isinstance(c, bool):
        return a if c else b
    ce = _b(c)
    if isinstance(a, (SymBool, bool)) and isinstance(b, (SymBool, bool)):
        return SymBool(z3.If(ce, _b(a), _b(b)))
    if isinstance(a, (SymReal, float, Fraction)) or isinstance(b, (SymReal, float, Fraction)):
        return SymReal(z3.If(ce, _r(a), _r(b)))
    return SymInt(z3.If(ce, _i(a), _i(b)))


def _i(o):
    if isinstance(o, SymInt):
        return o.e
    if isinstance(o, SymBool):
        return z3.If(o.e, z3.IntVal(1), z3.IntVal(0))
    if isinstance(o, bool):
        return z3.IntVal(int(o))
    if isinstance(o, int):
        return z3.IntVal(o)
    return None


class SymInt:
    """mathematical integer (Python int semantics); not an int subclass on purpose"""
    __slots__ = ('e',)

    def __init__(self, e):
        self.e = e

    def _bin(self, o, f, cls=None):
        l = _i(o)
        if l is None:
            if isinstance(o, (SymReal, float, Fraction)):
                return getattr(SymReal(z3.ToReal(self.e)), f.__name__)(o) if hasattr(f, '__name__') else NotImplemented
            return NotImplemented
        return (cls or SymInt)(f(self.e, l))

    def __add__(self, o):
        l = _i(o)
        if l is None:
            return SymReal(z3.ToReal(self.e)) + o if isinstance(o, (SymReal, float, Fraction)) else NotImplemented
        return SymInt(self.e + l)
    __radd__ = __add__

    def __sub__(self, o):
        l = _i(o)
        if l is None:
            return SymReal(z3.ToReal(self.e)) - o if isinstance(o, (SymReal, float, Fraction)) else NotImplemented
        return SymInt(self.e - l)

    def __rsub__(self, o):
        l = _i(o)
        if l is None:
            return o - SymReal(z3.ToReal(self.e)) if isinstance(o, (SymReal, float, Fraction)) else NotImplemented
        return SymInt(l - self.e)

    def __mul__(self, o):
        l = _i(o)
        if l is None:
            return SymReal(z3.ToReal(self.e)) * o if isinstance(o, (SymReal, float, Fraction)) else NotImplemented
        return SymInt(self.e * l)
    __rmul__ = __mul__

    def __floordiv__(self, o):
        l = _i(o)
        if l is None:
            return NotImplemented
        if z3.is_int_value(l) and l.as_long() > 0:
            return SymInt(self.e / l)        # z3 int div == floor for positive divisor
        # general python floor division
        q = self.e / l
        return SymInt(z3.If(l > 0, q, z3.If(self.e % l == 0, q, z3.If(q * l > self.e, q - 1, q))))

    def __mod__(self, o):
        l = _i(o)
        if l is None:
            return NotImplemented
        if z3.is_int_value(l) and l.as_long() > 0:
            return SymInt(self.e % l)
        raise EngineError('symbolic modulus by non-positive or symbolic divisor is not modelled')

    def __neg__(self):
        return SymInt(-self.e)

    def __pos__(self):
        return self

    def __abs__(self):
        return SymInt(z3.If(self.e >= 0, self.e, -self.e))

    def to_bv(self, width=None, signed=False):
        return SymBV(z3.Int2BV(self.e, width or WIDE), signed)

    def __rlshift__(self, o):
        """concrete_int << symbolic amount: a wide bit-vector standing in for the unbounded Python int; the amount
        must provably stay in [0, WIDE - 32) on this path, otherwise the result could wrap and the run is inconclusive"""
        if not isinstance(o, int) or o < 0 or o >= 1 << 31:
            raise EngineError('unsupported left operand for a symbolic shift')
        if CTX.decide(self.e < 0):
            raise ValueError('negative shift count')     # what Python does
        r = CTX.check(self.e >= WIDE - 32)
        if r != z3.unsat:
            raise Inconclusive('symbolic shift amount may exceed the modelled width')
        return SymBV(z3.BitVecVal(o, WIDE) << z3.Int2BV(self.e, WIDE))

    def __lshift__(self, o):
        if isinstance(o, int) and 0 <= o < 4096:
            return SymInt(self.e * (1 << o))
        return NotImplemented

    def __rshift__(self, o):
        if isinstance(o, int) and 0 <= o < 4096:
            return SymInt(self.e / (1 << o))     # floor for positive divisor, as python
        return NotImplemented

    def __eq__(self, o):
        l = _i(o)
        if l is None:
            if isinstance(o, SymReal):
                return SymBool(z3.ToReal(self.e) == o.e)
            return False
        return SymBool(self.e == l)

    def __ne__(self, o):
        l = _i(o)
        if l is None:
            if isinstance(o, SymReal):
                return SymBool(z3.ToReal(self.e) != o.e)
            return True
        return SymBool(self.e != l)

    def _cmp(self, o, f):
        l = _i(o)
        if l is None:
            if isinstance(o, (SymReal, float, Fraction)):
                return f(z3.ToReal(self.e), _r(o))
            return NotImplemented
        return f(self.e, l)

    def __lt__(self, o):
        r = self._cmp(o, lambda a, b: a < b)
        return r if r is NotImplemented else SymBool(r)

    def __le__(self, o):
        r = self._cmp(o, lambda a, b: a <= b)
        return r if r is NotImplemented else SymBool(r)

    def __gt__(self, o):
        r = self._cmp(o, lambda a, b: a > b)
        return r if r is NotImplemented else SymBool(r)

    def __ge__(self, o):
        r = self._cmp(o, lambda a, b: a >= b)
        return r if r is NotImplemented else SymBool(r)

    def __bool__(self):
        return CTX.decide(self.e != 0)

    def concrete(self):
        return CTX.realize(self.e).as_long()

    def __hash__(self):
        return hash(self.concrete())

    def __index__(self):
        return self.concrete()
    __int__ = __index__

    def __float__(self):
        return float(self.concrete())

    def __format__(self, spec):
        return format(self.concrete(), spec)

    def __str__(self):
        return str(self.concrete())

    def __repr__(self):
        return f'SymInt({self.e})'


def _r(o):
    if isinstance(o, SymReal):
        return o.e
    if isinstance(o, SymInt):
        return z3.ToReal(o.e)
    if isinstance(o, bool):
        return z3.RealVal(int(o))
    if isinstance(o, int):
        return z3.RealVal(o)
    if isinstance(o, float):
        return z3.RealVal(Fraction(o).limit_denominator(10 ** 12) if o != int(o) else int(o))
    if isinstance(o, Fraction):
        return z3.RealVal(o)
    return None


class SymReal:
    """real number standing in for a Python float (floats modelled as reals: stated in every check using it)"""
    __slots__ = ('e',)

    def __init__(self, e):
        self.e = e

    def __add__(self, o):
        l = _r(o)
        return NotImplemented if l is None else SymReal(self.e + l)
    __radd__ = __add__

    def __sub__(self, o):
        l = _r(o)
        return NotImplemented if l is None else SymReal(self.e - l)

    def __rsub__(self, o):
        l = _r(o)
        return NotImplemented if l is None else SymReal(l - self.e)

    def __mul__(self, o):
        l = _r(o)
        return NotImplemented if l is None else SymReal(self.e * l)
    __rmul__ = __mul__

    def __truediv__(self, o):
        l = _r(o)
        return NotImplemented if l is None else SymReal(self.e / l)

    def __rtruediv__(self, o):
        l = _r(o)
        return NotImplemented if l is None else SymReal(l / self.e)

    def __neg__(self):
        return SymReal(-self.e)

    def __pos__(self):
        return self

    def __abs__(self):
        return SymReal(z3.If(self.e >= 0, self.e, -self.e))

    def __eq__(self, o):
        l = _r(o)
        return False if l is None else SymBool(self.e == l)

    def __ne__(self, o):
        l = _r(o)
        return True if l is None else SymBool(self.e != l)

    def __lt__(self, o):
        l = _r(o)
        return NotImplemented if l is None else SymBool(self.e < l)

    def __le__(self, o):
        l = _r(o)
        return NotImplemented if l is None else SymBool(self.e <= l)

    def __gt__(self, o):
        l = _r(o)
        return NotImplemented if l is None else SymBool(self.e > l)

    def __ge__(self, o):
        l = _r(o)
        return NotImplemented if l is None else SymBool(self.e >= l)

    def __bool__(self):
        return CTX.decide(self.e != 0)

    def __hash__(self):
        raise EngineError('hash of a symbolic real')

    def __float__(self):
        raise EngineError('float() of a symbolic real')

    def __repr__(self):
        return f'SymReal({self.e})'


class SymBV:
    """fixed-width bit-vector used for shift/mask code; `wide` proxies model Python ints by staying far below 2^w"""
    __slots__ = ('e', 'w', 'signed')

    def __init__(self, e, signed=False):
        self.e = e
        self.w = e.size()
        self.signed = signed

    def _l(self, o):
        if isinstance(o, SymBV):
            if o.w != self.w:
                raise EngineError('bit-vector width mismatch')
            return o.e
        if isinstance(o, bool):
            return z3.BitVecVal(int(o), self.w)
        if isinstance(o, int):
            return z3.BitVecVal(o, self.w)
        if isinstance(o, SymBool):
            return z3.If(o.e, z3.BitVecVal(1, self.w), z3.BitVecVal(0, self.w))
        return None

    def _mk(self, e):
        return SymBV(e, self.signed)

    def __add__(self, o):
        l = self._l(o)
        return NotImplemented if l is None else self._mk(self.e + l)
    __radd__ = __add__

    def __sub__(self, o):
        l = self._l(o)
        return NotImplemented if l is None else self._mk(self.e - l)

    def __rsub__(self, o):
        l = self._l(o)
        return NotImplemented if l is None else self._mk(l - self.e)

    def __mul__(self, o):
        l = self._l(o)
        return NotImplemented if l is None else self._mk(self.e * l)
    __rmul__ = __mul__

    def __and__(self, o):
        l = self._l(o)
        return NotImplemented if l is None else self._mk(self.e & l)
    __rand__ = __and__

    def __or__(self, o):
        l = self._l(o)
        return NotImplemented if l is None else self._mk(self.e | l)
    __ror__ = __or__

    def __xor__(self, o):
        l = self._l(o)
        return NotImplemented if l is None else self._mk(self.e ^ l)
    __rxor__ = __xor__

    def __invert__(self):
        return self._mk(~self.e)

    def __lshift__(self, o):
        l = self._l(o)
        return NotImplemented if l is None else self._mk(self.e << l)

    def __rlshift__(self, o):
        l = self._l(o)
        if l is None:
            return NotImplemented
        if self.signed and self.w == WIDE:
            # python-int stand-in: negative amount raises, large amount would leave the modelled width
            if CTX.decide(self.e < 0):
                raise ValueError('negative shift count')
            if CTX.check(self.e >= WIDE - 32) != z3.unsat:
                raise Inconclusive('symbolic shift amount may exceed the modelled width')
        return self._mk(l << self.e)

    def __rshift__(self, o):
        l = self._l(o)
        if l is None:
            return NotImplemented
        return self._mk(self.e >> l if self.signed else z3.LShR(self.e, l))

    def __neg__(self):
        return self._mk(-self.e)

    def __eq__(self, o):
        l = self._l(o)
        return False if l is None else SymBool(self.e == l)

    def __ne__(self, o):
        l = self._l(o)
        return True if l is None else SymBool(self.e != l)

    def __lt__(self, o):
        l = self._l(o)
        return NotImplemented if l is None else SymBool(self.e < l if self.signed else z3.ULT(self.e, l))

    def __le__(self, o):
        l = self._l(o)
        return NotImplemented if l is None else SymBool(self.e <= l if self.signed else z3.ULE(self.e, l))

    def __gt__(self, o):
        l = self._l(o)
        return NotImplemented if l is None else SymBool(self.e > l if self.signed else z3.UGT(self.e, l))

    def __ge__(self, o):
        l = self._l(o)
        return NotImplemented if l is None else SymBool(self.e >= l if self.signed else z3.UGE(self.e, l))

    def __bool__(self):
        return CTX.decide(self.e != 0)

    def concrete(self):
        v = CTX.realize(self.e)
        return v.as_signed_long() if self.signed else v.as_long()

    def __hash__(self):
        return hash(self.concrete())

    def __index__(self):
        return self.concrete()
    __int__ = __index__

    def __repr__(self):
        return f'SymBV{self.w}({self.e})'


def is_sym(x):
    return isinstance(x, (SymBool, SymInt, SymReal, SymBV))


# ------------------------------------------------------------------ value factories

class SymV:
    """symbolic value factory handed to a harness"""
    symbolic = True

    def __init__(self, c):
        self.c = c
        self.failures = []
        self.inconclusive = []
        self.notes = []

    def _reg(self, name, kind, e):
        if name in self.c.vars:
            raise EngineError(f'duplicate symbolic variable {name}')
        self.c.vars[name] = (kind, e)

    def int(self, name, lo=None, hi=None):
        e = z3.Int(name)
        self._reg(name, 'int', e)
        if lo is not None:
            self.c.add(e >= lo)
        if hi is not None:
            self.c.add(e <= hi)
        return SymInt(e)

    def choice(self, name, values):
        """symbolic pick out of concrete python values; realised immediately (one path per value)"""
        i = self.int(name, 0, len(values) - 1)
        return values[i.concrete()]

    def bool(self, name):
        e = z3.Bool(name)
        self._reg(name, 'bool', e)
        return SymBool(e)

    def real(self, name, lo=None, hi=None):
        e = z3.Real(name)
        self._reg(name, 'real', e)
        if lo is not None:
            self.c.add(e >= lo)
        if hi is not None:
            self.c.add(e < hi)
        return SymReal(e)

    def bv(self, name, width, signed=False):
        e = z3.BitVec(name, width)
        self._reg(name, 'bv', e)
        return SymBV(e, signed)

    def wint(self, name, lo, hi):
        """Python int modelled as a signed WIDE-bit vector (for shift/mask code); exact while values stay far below
        2^(WIDE-1), which the shift side conditions enforce"""
        e = z3.BitVec(name, WIDE)
        self._reg(name, 'wint', e)
        self.c.add(z3.And(e >= lo, e <= hi))      # signed comparisons
        return SymBV(e, True)

    def fp(self, name, finite=True):
        """IEEE double (z3 Float64); model values are kept as 64-bit patterns"""
        from .cysym import SymFP, F64
        e = z3.FP(name, F64)
        self._reg(name, 'fp', e)
        if finite:
            self.c.add(z3.Not(z3.Or(z3.fpIsNaN(e), z3.fpIsInf(e))))
        return SymFP(e)

    def fresh_real(self, prefix='rnd', lo=None, hi=None):
        self.c.fresh += 1
        return self.real(f'{prefix}{self.c.fresh}', lo, hi)

    def assume(self, cond):
        if isinstance(cond, bool):
            if not cond:
                raise Abort()
            return
        self.c.add(_b(cond))
        self._feasible()

    def _feasible(self):
        r = self.c.check()
        if r == z3.unknown:
            raise Inconclusive('solver returned unknown on an assumption')
        if r != z3.sat:
            raise Abort()

    def distinct(self, *xs):
        self.c.add(z3.Distinct(*[x.e for x in xs]))
        self._feasible()

    def sym_const(self, v):
        return v

    def observe(self, key, value):
        self.c.observed.append((key, value))

    def note(self, text):
        self.notes.append(text)

    def peek(self, exprs):
        """one concrete instance of the given z3 terms under the current path condition (no constraint is added: a
        representative of the path, used for messages and for class-invariant follow-up calls)"""
        if self.c.check() != z3.sat:
            raise Inconclusive('no model for the current path')
        m = self.c.model()
        return [_pyval(m.eval(e, model_completion=True)) for e in exprs]

    def prove(self, cond, label, info=None):
        """assert `cond` for every value on this path; never forks"""
        self.c.assertions += 1
        if isinstance(cond, bool):
            if cond:
                return True
            neg = None
        else:
            neg = z3.Not(_b(cond))
            if self.c.som:
                neg = z3.simplify(neg, som=True)
            r = self.c.check(neg)
            if r == z3.unsat:
                return True
            if r == z3.unknown:
                self.inconclusive.append(f'{label}: solver unknown')
                return True
        if neg is not None:
            self.c.solver.push()
            self.c.add(neg)
        mv = self.c.model_values()
        if neg is not None:
            self.c.solver.pop()
        if mv is None:
            self.inconclusive.append(f'{label}: no model for failing assertion')
            return True
        self.failures.append({'label': label, 'model': mv[1], 'info': _jsonable(info)})
        if neg is None:
            raise Abort()       # concrete failure: nothing more to learn on this path
        self.c.add(_b(cond))  # go on under the assertion, to find independent failures
        self._feasible()
        return False

    def fail(self, label, info=None):
        return self.prove(False, label, info)


class ConcreteFail(Exception):
    def __init__(self, label, info=None):
        super().__init__(label)
        self.label = label
        self.info = info


class ConcreteV:
    """plain-Python value factory: replays a solver model natively against the real code"""
    symbolic = False

    def __init__(self, model, reals_as='fraction'):
        self.model = dict(model)
        self.failed = []
        self.observed = []
        self.fresh = 0
        self.reals_as = reals_as
        self.notes = []

    def int(self, name, lo=None, hi=None):
        v = self.model.get(name)
        if v is None:
            v = lo if lo is not None else (hi if hi is not None else 0)
        return int(v)

    def choice(self, name, values):
        return values[self.int(name, 0, len(values) - 1)]

    def bool(self, name):
        return bool(self.model.get(name, False))

    def real(self, name, lo=None, hi=None):
        v = self.model.get(name)
        if v is None:
            v = Fraction(lo if lo is not None else 0)
        else:
            v = Fraction(v)
        return float(v) if self.reals_as == 'float' else v

    def bv(self, name, width, signed=False):
        v = int(self.model.get(name, 0))
        if signed and v >> (width - 1):
            v -= 1 << width
        return v

    def wint(self, name, lo, hi):
        v = self.model.get(name)
        return int(lo if v is None else v)

    def fp(self, name, finite=True):
        import struct
        return struct.unpack('<d', int(self.model.get(name, 0)).to_bytes(8, 'little'))[0]

    def fresh_real(self, prefix='rnd', lo=None, hi=None):
        self.fresh += 1
        return self.real(f'{prefix}{self.fresh}', lo, hi)

    def assume(self, cond):
        if not cond:
            raise Abort()

    def distinct(self, *xs):
        if len(set(xs)) != len(xs):
            raise Abort()

    def observe(self, key, value):
        self.observed.append((key, value))

    def note(self, text):
        self.notes.append(text)

    def prove(self, cond, label, info=None):
        if not cond:
            self.failed.append(label)
            return False
        return True

    def fail(self, label, info=None):
        self.failed.append(label)
        return False


def _jsonable(x):
    if x is None or isinstance(x, (str, int, float, bool)):
        return x
    if isinstance(x, dict):
        return {str(k): _jsonable(v) for k, v in x.items()}
    if isinstance(x, (list, tuple, set, frozenset)):
        return [_jsonable(v) for v in x]
    return repr(x)


def eval_under(model, v):
    """value of a proxy / python value under a z3 model, as plain python"""
    if isinstance(v, SymBV) and v.signed:
        return model.eval(v.e, model_completion=True).as_signed_long()
    if isinstance(v, (SymInt, SymBV, SymBool, SymReal)):
        return _pyval(model.eval(v.e, model_completion=True))
    if type(v).__name__ == 'SymFP':
        import struct
        bits = model.eval(z3.fpToIEEEBV(v.e), model_completion=True).as_long()
        return repr(struct.unpack('<d', bits.to_bytes(8, 'little'))[0])
    if type(v).__name__ == 'CVal':
        if not v.sym:
            return v.v
        r = model.eval(v.v, model_completion=True)
        return r.as_signed_long() if v.t in ('char', 'short', 'int', 'bint', 'long long', 'Py_ssize_t') else r.as_long()
    if isinstance(v, float):
        return repr(v)
    if isinstance(v, Fraction):
        return f'{v.numerator}/{v.denominator}'
    if isinstance(v, (list, tuple)):
        return [eval_under(model, x) for x in v]
    if isinstance(v, (set, frozenset)):
        return sorted((eval_under(model, x) for x in v), key=repr)
    if isinstance(v, dict):
        return {str(eval_under(model, k)): eval_under(model, x) for k, x in v.items()}
    return _jsonable(v)


def plain(v):
    if isinstance(v, float):
        return repr(v)
    if type(v).__name__ == 'CVal':
        return v.v
    if isinstance(v, Fraction):
        return f'{v.numerator}/{v.denominator}'
    if isinstance(v, (list, tuple)):
        return [plain(x) for x in v]
    if isinstance(v, (set, frozenset)):
        return sorted((plain(x) for x in v), key=repr)
    if isinstance(v, dict):
        return {str(plain(k)): plain(x) for k, x in v.items()}
    return _jsonable(v)


# ------------------------------------------------------------------ exploration

class Stats:
    def __init__(self):
        self.paths = 0
        self.aborted = 0
        self.decisions = 0
        self.realisations = 0
        self.queries = 0
        self.solver_s = 0.0
        self.assertions = 0
        self.failures = []
        self.inconclusive = []
        self.validated = 0
        self.validation_mismatch = []
        self.samples = []
        self.exhaustive = True
        self.notes = set()
        self.wall_s = 0.0

    def as_dict(self):
        d = dict(self.__dict__)
        d['notes'] = sorted(self.notes)
        return d


def explore(fn, max_paths=200000, budget_s=600.0, query_timeout_ms=20000, validate_every=1, validate=True,
            max_failures=5, n_samples=2, setup=None, teardown=None, reals_as='fraction', som=False):
    """run fn(V) on every feasible path.  fn must be deterministic given the decisions taken."""
    global CTX
    st = Stats()
    script = []
    t0 = time.perf_counter()
    while True:
        c = Ctx(script, query_timeout_ms)
        c.som = som
        CTX = c
        V = SymV(c)
        completed = False
        try:
            if setup:
                setup()
            try:
                fn(V)
                completed = True
            finally:
                if teardown:
                    teardown()
        except Abort:
            st.aborted += 1
        except Inconclusive as e:
            st.inconclusive.append(str(e))
            st.exhaustive = False
        except Exception as e:
            CTX = c
            mv = c.model_values()
            CTX = None
            tb = traceback.format_exc(limit=-6)
            if mv is None:
                st.inconclusive.append(f'exception {type(e).__name__} on a path without model: {e}')
            else:
                V.failures.append({'label': f'exception:{type(e).__name__}', 'model': mv[1],
                                   'info': {'message': str(e)[:300], 'traceback': tb[-1500:]}})
        st.paths += 1
        st.decisions += c.new_decisions
        st.realisations += c.realisations
        st.assertions += c.assertions
        st.notes.update(V.notes)
        for f in V.failures:
            if len(st.failures) < max_failures:
                st.failures.append(f)
        st.inconclusive.extend(V.inconclusive)
        if completed and validate and (st.paths % validate_every == 0 or st.paths <= 3):
            mv = c.model_values()
            if mv is not None:
                m, vals = mv
                sym_obs = [(k, eval_under(m, v)) for k, v in c.observed]
                CTX = None
                cv = ConcreteV(vals, reals_as)
                try:
                    if setup:
                        setup()
                    try:
                        fn(cv)
                    finally:
                        if teardown:
                            teardown()
                    con_obs = [(k, plain(v)) for k, v in cv.observed]
                    if con_obs != sym_obs:
                        st.validation_mismatch.append({'model': vals, 'symbolic': sym_obs[:20], 'concrete': con_obs[:20]})
                    elif cv.failed:
                        # a concrete failure on a path the engine judged clean is an engine disagreement
                        # unless this path recorded the same label
                        labels = {f['label'] for f in V.failures}
                        if not set(cv.failed) <= labels:
                            st.validation_mismatch.append({'model': vals, 'concrete_failed': cv.failed})
                    st.validated += 1
                except Abort:
                    st.validation_mismatch.append({'model': vals, 'concrete': 'aborted'})
                except Exception as e:
                    st.validation_mismatch.append({'model': vals, 'concrete': f'exception {type(e).__name__}: {e}'[:300]})
                if len(st.samples) < n_samples:
                    st.samples.append({'model': vals, 'observed': sym_obs[:12]})
        st.queries += c.queries
        st.solver_s += c.qtime
        CTX = None
        # backtrack
        trail = c.trail
        while trail:
            ent = trail[-1]
            if ent[0] == 'B' and ent[3] and ent[2] is True:
                trail[-1] = ['B', ent[1], False, False]
                break
            if ent[0] == 'R' and ent[4]:
                trail[-1] = ['R', ent[1], ent[2] + [ent[3]], None, True]
                break
            trail.pop()
        if not trail:
            break
        if st.paths >= max_paths or time.perf_counter() - t0 > budget_s:
            st.exhaustive = False
            st.inconclusive.append(f'exploration budget reached after {st.paths} paths')
            break
        if len(st.failures) >= max_failures:
            st.exhaustive = False
            break
        script = list(trail)
    st.wall_s = time.perf_counter() - t0
    return st


def replay(fn, model, setup=None, teardown=None, reals_as='fraction'):
    """native re-run of a stored model; returns list of failed labels"""
    global CTX
    CTX = None
    cv = ConcreteV(model, reals_as)
    if setup:
        setup()
    try:
        fn(cv)
    except Abort:
        pass
    except Exception as e:
        cv.failed.append(f'exception:{type(e).__name__}')
    finally:
        if teardown:
            teardown()
    return cv.failed
