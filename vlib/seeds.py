"""seed corpus: small molecules covering the supported chemical space; sizes chosen so that every random-order
spelling can be enumerated by the solver"""

QUICK = [
    'CCO', 'CC(=O)O', 'C#N', 'C[N+](C)(C)C', '[O-]C=O', 'CC[O-].[Na+]', '[13CH4]', 'C[2H]', '[CH3]', 'C[CH]C',
    'c1ccccc1', 'c1ccncc1', 'c1cc[nH]c1', 'c1ccoc1', 'C1CC1', 'C1CC1C', 'C=C=C', 'CS(=O)(=O)C', 'OP(O)(O)=O',
    'C[C@H](N)O', 'F[C@](Cl)(Br)I', 'F/C=C/Cl', 'C[C@H](O)/C=C/F', 'FC=[C@]=CCl', 'C[C@H]1CCO1', '[Fe+2].[Cl-].[Cl-]',
    'C[C@]12CCC[C@H]1C2', 'C[Si](C)(C)C', 'B(O)O', 'CC1=CC=C1', 'C[C@]([2H])(O)F', '[H][C@](C)(N)O',
    'CC1C[C@@]12CCO2', 'C[C@H](N)O.O', 'O.F[C@H](Cl)Br', 'C[C@H](O)[C@H](F)[C@@H](C)O', 'C/C=C/[C@H](O)/C=C\\C', 'CC(C)(C)C', 'N#[N+][O-]', 'C[N+](=O)[O-]', 'O=C=O', '[NH4+]', 'Cl[Pt](Cl)(N)N',
    'C1CCC/C=C/CC1', 'C1CCC/C=C\\CC1',   # smallest ring with a stereogenic endocyclic double bond
    'C1CC1.C1CCC1',   # components of one Morgan class (rings of one atom type) differ only in size
    'CB1(C)~[H]B(C)(C)~[H]1',   # ring of alternating ordinary / coordinate bonds: equivalent neighbours differ in the bond only
]
THOROUGH = QUICK + [
    'CC(=O)Oc1ccccc1', 'c1ccc2ccccc2c1', 'c1ccc2[nH]ccc2c1', 'C1CC2CC1C2', 'C1CCC2(CC1)CCCC2', 'OC(=O)[C@@H](N)CS',
    'C/C=C/C=C\\C', 'C[C@H]1CC[C@@H](O)O1', 'N[C@@]1(C)CCCO1', 'CC(C)C[C@H](N)C(O)=O', 'c1ccsc1C=O', 'Cn1cnc2c1c(=O)n(C)c(=O)n2C',
    'CC[13CH2][15NH2]', '[O-][n+]1ccccc1', 'C1=CC=CC=C1', 'C[P+](C)(C)C.[I-]', 'OB1OCCO1', '[Cu+2].[O-]S([O-])(=O)=O',
    'F/C(Cl)=C(/Br)I', 'CC=[C@]=C(C)F', 'CS(=O)CC', 'CC1=CC=CC=CC=C1', 'O=C1C[C@@]2(CCCO2)CC1',
]
# documented heuristic gaps (property texts of C01 / C06 / C14): kept out of the clauses that exclude them
GAP_PSEUDO_ASYMMETRIC = ['C[C@H]1CC[C@H](C)CC1', 'C[C@H]1CC[C@@H](C)CC1']
GAP_CAGES = ['C12C3C1C4C2C34']

# stereo centres whose stereogenicity depends on other labels (pseudo-asymmetric / E-Z flanked): used where the clause
# is about keeping labels, not about canonical strings
DEPENDENT_STEREO = ['C[C@H](O)[C@H](F)[C@@H](C)O', 'C/C=C/[C@H](O)/C=C\\C']
# larger ring systems with multi-closure stereo centres: canonical writer only (too many random spellings)
BIG_STEREO = ['C[C@]12CC[C@H]3[C@@H](CCCC3)[C@@H]1CC[C@@H]2O', 'O[C@H]1C[C@@H]2CC[C@H]1C2',
              'C[C@H]1CC[C@@H]2[C@@H](C1)CC[C@H]2O']

# canonical-string seeds too large for the style-flag product of C02 (used by C01 only)
C01_ONLY = ['C1CCC1.C1CCCC1.C1CC1',
            'C/C(Cl)=C/CC/C=C(C)\\Cl']   # two constitutionally equivalent trisubstituted double bonds, opposite labels
