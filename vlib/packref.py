"""Independent codec of the published chython pack layouts, written from the format description in the docstring of
MoleculeContainer.pack (version 2) and the comment in the decoder (version 0 bond-order block).  Imports nothing
from chython.  Values may be Python ints or z3 bit-vectors (BitWriter concatenates either)."""
import struct

import z3


def _is_sym(v):
    return isinstance(v, z3.ExprRef)


class BitWriter:
    """big-endian bit stream"""

    def __init__(self):
        self.parts = []          # (value, width)

    def put(self, v, width):
        if not _is_sym(v):
            v = int(v)
            if not 0 <= v < (1 << width):
                raise ValueError(f'value {v} does not fit {width} bits')
        elif v.size() != width:
            raise ValueError(f'symbolic field of width {v.size()} written as {width} bits')
        self.parts.append((v, width))

    def pad_to_byte(self):
        n = sum(w for _, w in self.parts) % 8
        if n:
            self.put(0, 8 - n)

    def bytes(self):
        total = sum(w for _, w in self.parts)
        assert total % 8 == 0, total
        if all(not _is_sym(v) for v, _ in self.parts):
            acc = 0
            for v, w in self.parts:
                acc = (acc << w) | v
            return list(acc.to_bytes(total // 8, 'big'))
        out = []
        # cut the stream into bytes without building one huge term: walk the parts
        cur, curw = [], 0
        for v, w in self.parts:
            e = v if _is_sym(v) else z3.BitVecVal(v, w)
            pos = w
            while pos > 0:
                take = min(8 - curw, pos)
                cur.append(z3.Extract(pos - 1, pos - take, e))
                curw += take
                pos -= take
                if curw == 8:
                    b = z3.simplify(z3.Concat(*cur) if len(cur) > 1 else cur[0])
                    out.append(b.as_long() if z3.is_bv_value(b) else b)
                    cur, curw = [], 0
        return out


def encode_v2(atoms, ct):
    """atoms: list of dicts in molecule order with keys
         number (12 bit), neighbours (list of (number, order_minus_1 (3 bit))), tetra (2 bit), allene (2 bit),
         isotope (5 bit field), z (7 bit), x16, y16 (16 bit IEEE half patterns), h (3 bit, 7 = unknown),
         charge4 (4 bit = charge + 4), radical (1 bit)
       ct: list of (n, m, sign bit) in the order the labelled bonds are first met
    """
    w = BitWriter()
    w.put(2, 8)
    w.put(len(atoms), 12)
    w.put(len(ct), 12)
    for a in atoms:
        w.put(a['number'], 12)
        w.put(len(a['neighbours']), 4)
        w.put(a['tetra'], 2)
        w.put(a['allene'], 2)
        w.put(a['isotope'], 5)
        w.put(a['z'], 7)
        w.put(a['x16'], 16)
        w.put(a['y16'], 16)
        w.put(a['h'], 3)
        w.put(a['charge4'], 4)
        w.put(a['radical'], 1)
    for a in atoms:
        for num, _ in a['neighbours']:
            w.put(num, 12)
    # bond orders: each bond once, where it is first met walking atoms in order and skipping neighbours already
    # visited as atoms (identity of atoms is positional: neighbours carry the index of the atom they refer to)
    seen = set()
    for i, a in enumerate(atoms):
        seen.add(i)
        for (num, o), j in zip(a['neighbours'], a['neighbour_index']):
            if j not in seen:
                w.put(o, 3)
    w.pad_to_byte()
    for n, m, s in ct:
        w.put(n, 12)
        w.put(m, 12)
        w.put(0, 7)
        w.put(s, 1)
    return w.bytes()


def half_bits_of(x):
    """IEEE half pattern the format stores for a concrete double: truncation toward zero, 0 outside the range"""
    if x == 0 or abs(x) >= 65536.0 or abs(x) < 2.0 ** -25 or x != x:
        return 0
    sign = 0x8000 if x < 0 else 0
    x = abs(x)
    import math
    m, e = math.frexp(x)          # x = m * 2^e, 0.5 <= m < 1
    e -= 1                        # x = (2m) * 2^e, 1 <= 2m < 2
    if e < -14:                   # subnormal half: units of 2^-24
        return sign | int(x / 2.0 ** -24)
    return sign | ((e + 15) << 10) | int((2 * m - 1) * 1024)


def half_value(bits):
    return struct.unpack('>e', bits.to_bytes(2, 'big'))[0]


class BitReader:
    def __init__(self, data):
        self.data = bytes(data)
        self.pos = 0

    def get(self, width):
        v = 0
        for _ in range(width):
            byte = self.data[self.pos // 8]
            v = (v << 1) | ((byte >> (7 - self.pos % 8)) & 1)
            self.pos += 1
        return v

    def align(self):
        self.pos = (self.pos + 7) // 8 * 8


def decode(data):
    """concrete decoder of version 2 and version 0 packs -> (version, atoms, ct, length)"""
    r = BitReader(data)
    version = r.get(8)
    if version not in (0, 2):
        raise ValueError('not a molecule pack')
    na, nct = r.get(12), r.get(12)
    atoms = []
    for _ in range(na):
        a = {'number': r.get(12), 'ncount': r.get(4), 'tetra': r.get(2), 'allene': r.get(2), 'isotope': r.get(5),
             'z': r.get(7), 'x16': r.get(16), 'y16': r.get(16), 'h': r.get(3), 'charge4': r.get(4), 'radical': r.get(1)}
        atoms.append(a)
    index = {a['number']: i for i, a in enumerate(atoms)}
    total = sum(a['ncount'] for a in atoms)
    for a in atoms:
        a['neighbours'] = [r.get(12) for _ in range(a['ncount'])]
    nb = total // 2
    orders = []
    if version == 2:
        for _ in range(nb):
            orders.append(r.get(3))
        r.align()
    else:
        # version 0: five bonds per two bytes, one leading pad bit
        k = 0
        while k < nb:
            r.get(1)
            for _ in range(5):
                orders.append(r.get(3))
            k += 5
        orders = orders[:nb]
    it = iter(orders)
    seen = set()
    bonds = {}
    for i, a in enumerate(atoms):
        seen.add(i)
        for m in a['neighbours']:
            j = index[m]
            if j not in seen:
                bonds[frozenset((a['number'], m))] = next(it) + 1
    ct = []
    for _ in range(nct):
        n, m = r.get(12), r.get(12)
        r.get(7)
        ct.append((n, m, r.get(1)))
    assert r.pos % 8 == 0
    return version, atoms, bonds, ct, r.pos // 8


# reference isotopes (MDL) of the 118 elements: the published format stores isotope - (reference - 16)
MDL_REFERENCE = [None, 1, 4, 7, 9, 11, 12, 14, 16, 19, 20, 23, 24, 27, 28, 31, 32, 35, 40, 39, 40, 45, 48, 51, 52, 55, 56,
                 59, 59, 64, 65, 70, 73, 75, 79, 80, 84, 85, 88, 89, 91, 93, 96, 98, 101, 103, 106, 108, 112, 115, 119,
                 122, 128, 127, 131, 133, 137, 139, 140, 141, 144, 145, 150, 152, 157, 159, 163, 165, 167, 169, 173,
                 175, 178, 181, 184, 186, 190, 192, 195, 197, 201, 204, 207, 209, 209, 210, 222, 223, 226, 227, 232,
                 231, 238, 237, 244, 243, 247, 247, 251, 252, 257, 258, 259, 260, 261, 270, 269, 270, 270, 278, 281,
                 281, 285, 278, 289, 289, 293, 297, 294]
