"""builders for chython atom / query-atom / bond objects whose attribute slots hold minisym proxies"""
from .minisym import SymBool, SymInt, s_and, s_or, s_not, s_iff, implies, is_sym

NONMETALS = {1, 5, 6, 7, 8, 9, 14, 15, 16, 17, 32, 33, 34, 35, 51, 52, 53, 85}     # non-metals and metalloids
NOBLE = {2, 10, 18, 36, 54, 86, 118}


def sym_tuple(V, name, lo, hi, lens, intf=None):
    """sorted tuple of distinct symbolic ints (length realised out of `lens`, members symbolic)"""
    intf = intf or V.int
    lens = list(range(lens + 1)) if isinstance(lens, int) else [x for x in lens if x <= hi - lo + 1]
    n = V.choice(name + '_len', lens) if len(lens) > 1 else lens[0]
    xs = [intf(f'{name}{i}', lo, hi) for i in range(n)]
    for a, b in zip(xs, xs[1:]):
        V.assume(a < b)
    return tuple(xs)


def sym_atom(V, cls, name, intf=None, h_max=4, ring_choices=(3, 5, 6), with_none_h=True, nb_max=14):
    """molecule atom of class `cls` with every label symbolic; returns (atom, attrs dict)"""
    intf = intf or V.int
    a = object.__new__(cls)
    has_iso = V.bool(name + '_has_iso')
    iso = intf(name + '_iso', 1, 400)
    charge = intf(name + '_charge', -4, 4)
    rad = V.bool(name + '_rad')
    nb = intf(name + '_nb', 0, nb_max)
    het = intf(name + '_het', 0, nb_max)
    hyb = intf(name + '_hyb', 1, 4)
    h_none = V.bool(name + '_h_none') if with_none_h else False
    h = intf(name + '_h', 0, h_max)
    rings = set()
    ring_bits = {}
    for r in ring_choices:
        b = V.bool(f'{name}_ring{r}')
        ring_bits[r] = b
        if b:                      # forks: the set is hashed anyway
            rings.add(r)
    a._isotope = iso if has_iso else None
    a._charge = charge
    a._is_radical = rad
    a._implicit_hydrogens = None if h_none else h
    a._explicit_hydrogens = 0
    a._stereo = None
    a._neighbors = nb
    a._heteroatoms = het
    a._hybridization = hyb
    a._ring_sizes = rings
    a._in_ring = bool(rings)
    a._parsed_mapping = None
    from chython.periodictable.base.vector import Vector
    a._xy = Vector(0., 0.)
    attrs = dict(has_iso=has_iso, iso=iso, charge=charge, rad=rad, nb=nb, het=het, hyb=hyb, h_none=h_none, h=h,
                 rings=frozenset(rings), number=a.atomic_number)
    return a, attrs


def sym_query_attrs(V, q, name, intf=None, lens=(0, 1, 2), ring_mode=None, extended=True, h_max=4, nb_max=14,
                    ring_sel=((3,), (5,), (6,), (3, 5), (5, 6), (3, 6), (4,), (3, 5, 6))):
    """fill the slots of a query atom object with symbolic constraints; returns attrs dict"""
    intf = intf or V.int
    attrs = {}
    attrs['nb'] = q._neighbors = sym_tuple(V, name + '_nb', 0, nb_max, lens, intf)
    attrs['hyb'] = q._hybridization = sym_tuple(V, name + '_hyb', 1, 4, lens, intf)
    q._masked = False
    if extended:
        attrs['charge'] = q._charge = intf(name + '_charge', -4, 4)
        attrs['rad'] = q._is_radical = V.bool(name + '_rad')
        attrs['het'] = q._heteroatoms = sym_tuple(V, name + '_het', 0, nb_max, lens, intf)
        attrs['h'] = q._implicit_hydrogens = sym_tuple(V, name + '_h', 0, h_max, lens, intf)
        mode = ring_mode or V.choice(name + '_ringmode', ['any', 'none', 'sizes'])
        if mode == 'any':
            q._ring_sizes = ()
        elif mode == 'none':
            q._ring_sizes = (0,)
        else:
            k = V.choice(name + '_ringsel', ring_sel)
            q._ring_sizes = k
        attrs['rings'] = q._ring_sizes
        q._stereo = None
    return attrs


def member(x, tup):
    return s_or(*[x == t for t in tup]) if tup else False


def doc_atom_match(kind, q, a, element_ok):
    """documented semantics of a query atom against a labelled molecule atom (attrs dicts), no forking"""
    conds = [element_ok]
    if kind != 'metal':
        conds.append(q['charge'] == a['charge'])
        conds.append(s_iff(q['rad'], a['rad']))
    if kind == 'element':
        iso_spec = q.get('iso_spec', False)
        # an isotope constraint (non-zero) demands that isotope on the atom
        conds.append(implies(iso_spec, s_and(a['has_iso'], a['iso'] == q['iso'])))
    if q['nb']:
        conds.append(member(a['nb'], q['nb']))
    if q['hyb']:
        conds.append(member(a['hyb'], q['hyb']))
    if kind != 'metal':
        rs = q['rings']
        if rs:
            if rs[0] == 0:
                conds.append(len(a['rings']) == 0)
            else:
                conds.append(bool(set(rs) & set(a['rings'])))
        if q['h']:
            conds.append(s_and(s_not(a['h_none']), member(a['h'], q['h'])))
        if q['het']:
            conds.append(member(a['het'], q['het']))
    return s_and(*conds)
