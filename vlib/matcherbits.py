"""run the real bit-layout builders of chython.algorithms.isomorphism with the struct packing replaced by a recorder
that keeps every field (possibly symbolic) instead of turning it into bytes"""
import struct as _struct


class RecStruct:
    """stands in for struct.Struct: remembers the format and the fields of every pack() call"""

    def __init__(self, fmt, name, log):
        self.format = fmt
        self.name = name
        self.log = log
        self.size = _struct.calcsize(fmt)

    def pack(self, *fields):
        self.log.append((self.name, self.format, fields))
        return (self.name, self.format, fields)


class RecBytes(list):
    """the records written to one buffer; converts to byte cells (little endian, native sizes) on demand"""

    def to_cells(self):
        import z3
        from .minisym import SymBV, SymBool, SymInt
        size = {'Q': 8, 'I': 4}
        cells = []
        for name, fmt, fields in self:
            for ch, v in zip(fmt, fields):
                n = size[ch]
                if isinstance(v, bool):
                    v = int(v)
                if isinstance(v, int):
                    if not 0 <= v < 1 << (8 * n):
                        raise OverflowError(f'struct field {v} does not fit format {ch}')
                    cells.extend(v.to_bytes(n, 'little'))
                elif isinstance(v, SymBV):
                    for k in range(n):
                        cells.append(z3.simplify(z3.Extract(8 * k + 7, 8 * k, v.e)))
                else:
                    raise TypeError(f'cannot serialise {type(v).__name__}')
        return cells


class RecBuffer:
    def __init__(self):
        self.items = RecBytes()

    def write(self, x):
        self.items.append(x)

    def getvalue(self):
        return self.items


class patched_structs:
    """context manager: chython.algorithms.isomorphism.{header,m_atom,q_atom,bond}_struct and BytesIO -> recorders"""

    def __enter__(self):
        import chython.algorithms.isomorphism as iso
        self.iso = iso
        self.saved = {k: getattr(iso, k) for k in ('header_struct', 'm_atom_struct', 'q_atom_struct', 'bond_struct',
                                                   'BytesIO')}
        self.log = []
        for k in ('header_struct', 'm_atom_struct', 'q_atom_struct', 'bond_struct'):
            setattr(iso, k, RecStruct(self.saved[k].format, k, self.log))
        iso.BytesIO = RecBuffer
        return self

    def __exit__(self, *exc):
        for k, v in self.saved.items():
            setattr(self.iso, k, v)
        return False


def build_molecule(atoms, bonds):
    """MoleculeContainer around ready-made atom objects (numbers 1..n) and {(i, j): Bond} without any relabelling"""
    from chython import MoleculeContainer
    m = MoleculeContainer()
    for i, a in enumerate(atoms, 1):
        m._atoms[i] = a
        m._bonds[i] = {}
    for (i, j), b in bonds.items():
        m._bonds[i][j] = b
        m._bonds[j][i] = b
    return m


def compiled_structure_fields(atoms, bonds, mol=None):
    """fields written by MoleculeIsomorphism._cython_compiled_structure"""
    m = mol if mol is not None else build_molecule(atoms, bonds)
    m.__dict__.pop('_cython_compiled_structure', None)
    with patched_structs() as ps:
        items = type(m)._cython_compiled_structure.func(m) if hasattr(type(m)._cython_compiled_structure, 'func') \
            else m._cython_compiled_structure
    m.__dict__.pop('_cython_compiled_structure', None)
    out = {'header': None, 'atoms': [], 'bonds': [], 'formats': {}}
    for name, fmt, f in items:
        out['formats'][name] = fmt
        if name == 'header_struct':
            out['header'] = f[0]
        elif name == 'm_atom_struct':
            out['atoms'].append(dict(zip(('v1', 'v2', 'v3', 'v4', 'o_from', 'o_to', 'number'), f)))
        elif name == 'bond_struct':
            out['bonds'].append(dict(zip(('v', 'index'), f)))
    return out


def compiled_query_fields(query):
    """fields written by QueryIsomorphism._cython_compiled_query, one dict per component"""
    query.__dict__.pop('_cython_compiled_query', None)
    with patched_structs() as ps:
        comps = type(query)._cython_compiled_query.func(query)
    query.__dict__.pop('_cython_compiled_query', None)
    res = []
    for items in comps:
        out = {'header': None, 'atoms': [], 'bonds': [], 'formats': {}}
        for name, fmt, f in items:
            out['formats'][name] = fmt
            if name == 'header_struct':
                out['header'] = f[0]
            elif name == 'q_atom_struct':
                out['atoms'].append(dict(zip(('m1', 'm2', 'm3', 'm4', 'back', 'closures', 'q_from', 'q_to', 'number'), f)))
            elif name == 'bond_struct':
                out['bonds'].append(dict(zip(('v', 'index'), f)))
        res.append(out)
    return res
